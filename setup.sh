#!/bin/bash
# Builds /verif/.venv: the repository's interpreter (/venv) plus z3-solver and cvc5 from the
# offline wheelhouse.  Idempotent; needs no network.
set -e
cd "$(dirname "$0")"
V=.venv
if [ -x "$V/bin/python" ] && "$V/bin/python" -c "import z3, numpy" 2>/dev/null; then
    exit 0
fi
rm -rf "$V"
/venv/bin/python -m venv "$V"
SP=$("$V/bin/python" -c "import sysconfig; print(sysconfig.get_paths()['purelib'])")
cat > "$SP/verif_overlay.pth" <<EOF
import site; site.addsitedir('/venv/lib/python3.12/site-packages')
EOF
PIP_NO_INDEX=1 "$V/bin/python" -m pip install -q --no-index --find-links /opt/veriftools/wheels z3-solver >/dev/null 2>&1 || true
PIP_NO_INDEX=1 "$V/bin/python" -m pip install -q --no-index --find-links /opt/veriftools/wheels cvc5 >/dev/null 2>&1 || true
"$V/bin/python" -c "import z3, numpy; print('verif venv ok: z3', z3.get_version_string(), 'numpy', numpy.__version__)"
