#!/usr/bin/env python3
"""Regenerates MANIFEST.json from the property modules present in symx/props and tools/not_applicable.json."""
import importlib
import json
import os
import sys

ROOT = os.path.dirname(os.path.dirname(os.path.abspath(__file__)))
sys.path.insert(0, ROOT)
sys.path.insert(0, "/repo/src")

props = [json.loads(l) for l in open(os.path.join(ROOT, "properties.jsonl"))]
na_file = os.path.join(ROOT, "tools", "not_applicable.json")
na = json.load(open(na_file)) if os.path.exists(na_file) else {}
checks = []
not_app = []
for p in props:
    pid = p["id"]
    modpath = os.path.join(ROOT, "symx", "props", pid.lower() + ".py")
    if os.path.exists(modpath) and pid not in na:
        m = importlib.import_module(f"symx.props.{pid.lower()}")
        meta = m.META
        checks.append(dict(
            property_id=pid,
            quick_cmd=f"./check {pid} --tier quick",
            thorough_cmd=f"./check {pid} --tier thorough",
            evidence_file=f"/verif/evidence/{pid}.json",
            replay_cmd_template=f"./check {pid} --replay {{path}}",
            engine="symx",
            level_claimed=dict(
                category="model_checking",
                text=meta.get("level_text", "bounded symbolic execution of the real Python code on symbolic reals; every obligation "
                              "is a z3 verdict over all values of the symbolic inputs within the enumerated structural bounds"),
                design_ref=meta.get("design_ref", f"DESIGN.md section 6 ({pid})"),
            ),
            level_note="; ".join(meta.get("assumptions", [])) + " | outside the claim: " + "; ".join(meta.get("outside", [])),
            technique=meta.get("technique", "symbolic execution of the real code (shadow symbolic reals) + z3 (QF_NRA/nlsat, LRA) per path; "
                               "counterexamples replayed on the real code with Fractions"),
        ))
    else:
        not_app.append(dict(property_id=pid, reason=na.get(pid, "check not built yet in this round")))

manifest = dict(
    version=1,
    setup_cmd="./setup.sh",
    hooks=dict(guard="COMPMEC_NURBS_VERIF", enable="no source hooks: checks import /repo/src and replace module attributes from outside (COMPMEC_NURBS_VERIF=1 is exported by ./check but read by nothing in /repo)",
               baseline_off_cmd="cd /repo && /venv/bin/python -m pytest -ra -q -p no:cacheprovider --timeout=900 --continue-on-collection-errors",
               source_commits=[], add_only=True),
    engines=[dict(name="symx", path="/verif/symx", serves_properties=[c["property_id"] for c in checks],
                  kind_free_text="per-path symbolic execution of the real library on a symbolic real-number type (z3 terms), "
                                 "obligations discharged by z3; concrete replay of every counterexample and of one witness per path")],
    checks=checks,
    notes="Exit codes: 0 held; 1 VIOLATION (replayed on the real code); 2 inconclusive / harness error (never reported as success). "
          "Genuine defects found are in known_findings.json (open findings and fixed: entries).",
    not_applicable=not_app,
)
json.dump(manifest, open(os.path.join(ROOT, "MANIFEST.json"), "w"), indent=1)
print(f"{len(checks)} checks, {len(not_app)} not applicable")
