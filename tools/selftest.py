#!/usr/bin/env python3
"""Self-test: every seeded change under /verif/seeded must be reported by the check(s) recorded in its meta.json.

The change is applied to a scratch copy of /repo (under /tmp, removed afterwards); /repo itself is not touched.
usage: tools/selftest.py [seed-id ...]      exit 0 iff every listed (default: all) seeded change is detected"""
import glob, json, os, shutil, subprocess, sys, tempfile

ROOT = os.path.dirname(os.path.dirname(os.path.abspath(__file__)))
want = sys.argv[1:]
bad = 0
for mp in sorted(glob.glob(os.path.join(ROOT, "seeded", "*", "meta.json"))):
    m = json.load(open(mp))
    if want and m["seed"] not in want:
        continue
    if m.get("superseded"):
        print(f"{m['seed']}: superseded ({m['superseded'][:60]}...) -- skipped")
        continue
    if not m.get("detected_by"):
        print(f"{m['seed']}: recorded as not detected -- skipped")
        continue
    scratch = tempfile.mkdtemp(prefix="symx_selftest_", dir="/tmp")
    try:
        subprocess.run(f"git -C /repo archive HEAD | tar -x -C {scratch}", shell=True, check=True)
        r = subprocess.run(["git", "apply", "--directory", ".", os.path.join(os.path.dirname(mp), "patch.diff")], cwd=scratch,
                           capture_output=True, text=True)
        if r.returncode:
            r = subprocess.run(["patch", "-p1", "-i", os.path.join(os.path.dirname(mp), "patch.diff")], cwd=scratch, capture_output=True, text=True)
        for prop in m["detected_by"]:
            env = dict(os.environ, SYMX_REPO_SRC=os.path.join(scratch, "src"), SYMX_NO_EVIDENCE="1")
            out = subprocess.run([os.path.join(ROOT, "check"), prop, "--tier", "quick"], env=env, capture_output=True, text=True)
            ok = out.returncode == 1 and "VIOLATION" in out.stdout
            print(f"{m['seed']}: {prop} exit={out.returncode} {'detected' if ok else 'MISSED'}")
            bad += not ok
    finally:
        shutil.rmtree(scratch, ignore_errors=True)
sys.exit(1 if bad else 0)
