#!/bin/bash
# usage: try_patch.sh <patch.diff> <ID> [seed]   -- run a quick check against a scratch copy of /repo HEAD with the patch applied
set -e
scratch=$(mktemp -d /tmp/symx_try_XXXX)
git -C /repo archive HEAD | tar -x -C $scratch
(cd $scratch && git apply "$1") || { echo "patch does not apply"; rm -rf $scratch; exit 3; }
shift
id=$1; seed=${2:-0}
SYMX_NO_EVIDENCE=1 SYMX_REPO_SRC=$scratch/src VERIF_SEED=$seed /verif/check $id --tier quick 2>&1 | tail -${TAIL:-4} | cut -c1-700
rm -rf $scratch
