#!/usr/bin/env python3
"""Confirm a seeded change and run the checks against it.

usage: seed_eval.py <worktree> <mutant-number> <seed-id> <property> [<other property> ...]

1. in the scratch worktree: the demonstration passes on the clean tree, fails with the patch; the existing test
   suite still passes with the patch;
2. apply the patch to /repo, run the quick check of every listed property, undo the patch;
3. store patch.diff, demo.py and meta.json under /verif/seeded/<seed-id>/.
"""
import json
import os
import re
import shutil
import subprocess
import sys
import time

wt, n, sid = sys.argv[1], sys.argv[2], sys.argv[3]
props = sys.argv[4:]
out = os.path.join(wt, "out")
patch = os.path.join(out, f"mutant{n}.diff")
demo = os.path.join(out, f"demo{n}.py")
env = dict(os.environ, PYTHONPATH=os.path.join(wt, "src"), PYTHONWARNINGS="ignore")


def run(cmd, **kw):
    return subprocess.run(cmd, shell=True, capture_output=True, text=True, **kw)


def sh(cmd, **kw):
    r = run(cmd, **kw)
    return r.returncode, (r.stdout + r.stderr)


meta = dict(seed=sid, properties=props, source=f"{wt} mutant{n}", ran=[])
run(f"git -C {wt} checkout -- .")
rc_clean, _ = sh(f"/venv/bin/python {demo}", env=env, cwd=out)
rc_apply, o = sh(f"git -C {wt} apply {patch}")
if rc_apply:
    print("patch does not apply in the worktree:", o)
    sys.exit(2)
rc_mut, demo_out = sh(f"/venv/bin/python {demo}", env=env, cwd=out)
rc_t, tests = sh("/venv/bin/python -m pytest -q -p no:cacheprovider --timeout=900 2>&1 | tail -1", env=env, cwd=wt)
run(f"git -C {wt} checkout -- .")
meta["demo_exit_clean"], meta["demo_exit_with_change"] = rc_clean, rc_mut
meta["demo_output_with_change"] = demo_out.strip().splitlines()[-3:]
meta["test_suite_with_change"] = tests.strip()
ok = rc_clean == 0 and rc_mut != 0 and "300 passed" in tests
meta["confirmed"] = ok
print(f"[{sid}] demo clean={rc_clean} mutated={rc_mut} tests='{tests.strip()}' confirmed={ok}")
results = {}
if ok:
    # the change is applied to a scratch copy of /repo's HEAD (outside /repo and /verif, removed afterwards); the checks are
    # pointed at it with SYMX_REPO_SRC, so /repo itself is never modified and other runs are not disturbed
    import tempfile
    scratch = tempfile.mkdtemp(prefix="symx_seed_", dir="/tmp")
    try:
        run(f"git -C /repo archive HEAD | tar -x -C {scratch}")
        rc_apply, o = sh(f"git apply {patch}", cwd=scratch)
        if rc_apply:
            print("patch does not apply to /repo HEAD:", o)
            meta["applies_to_repo"] = False
        else:
            for p in props:
                t0 = time.time()
                rc, o = sh(f"SYMX_NO_EVIDENCE=1 SYMX_REPO_SRC={scratch}/src /verif/check {p} --tier quick")
                viol = [l for l in o.splitlines() if l.startswith("VIOLATION")]
                first = [l.strip() for l in o.splitlines() if l.strip().startswith("config=")][:2]
                results[p] = dict(exit=rc, violations=len(viol), first=[f[:300] for f in first], wall_s=round(time.time() - t0, 1),
                                  summary=o.strip().splitlines()[-1][:300])
                print(f"   {p}: exit={rc} violations={len(viol)} ({results[p]['wall_s']}s)")
                for f in first[:1]:
                    print("      ", f[:260])
    finally:
        shutil.rmtree(scratch, ignore_errors=True)
meta["checks"] = results
meta["detected_by"] = [p for p, r in results.items() if r["exit"] == 1]
d = os.path.join("/verif/seeded", sid)
os.makedirs(d, exist_ok=True)
shutil.copy(patch, os.path.join(d, "patch.diff"))
shutil.copy(demo, os.path.join(d, "demo.py"))
notes = os.path.join(out, "notes.md")
if os.path.exists(notes):
    shutil.copy(notes, os.path.join(d, "notes.md"))
meta["what_it_needs"] = "see notes.md"
meta["how_run"] = "tools/seed_eval.py: demo on clean and changed worktree, pytest with the change, then the patch applied to a scratch copy of /repo HEAD and ./check <id> --tier quick run against it (SYMX_REPO_SRC); equivalent to git -C /repo apply / checkout, without touching /repo"
json.dump(meta, open(os.path.join(d, "meta.json"), "w"), indent=1)
