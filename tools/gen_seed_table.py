#!/usr/bin/env python3
"""rewrites the seeded-changes table in DESIGN.md from seeded/*/meta.json"""
import glob, json, os, re
ROOT = os.path.dirname(os.path.dirname(os.path.abspath(__file__)))
rows = ["| seed | breaks | what it is (first lines of the diff) | quick checks run | detected by |", "|---|---|---|---|---|"]
for mp in sorted(glob.glob(os.path.join(ROOT, "seeded", "*", "meta.json"))):
    m = json.load(open(mp))
    d = os.path.dirname(mp)
    diff = open(os.path.join(d, "patch.diff")).read()
    files = sorted(set(re.findall(r"^\+\+\+ b/(\S+)", diff, re.M)))
    funcs = sorted(set(re.findall(r"^@@.*@@\s*(?:def|class)?\s*(\w+)", diff, re.M)))
    what = m.get("summary") or (", ".join(os.path.basename(f) for f in files) + ": " + ", ".join(funcs[:3]))
    ran = ", ".join(f"{p} (exit {r['exit']})" for p, r in m.get("checks", {}).items())
    det = ", ".join(m.get("detected_by", [])) or ("—" if m.get("confirmed") else "not confirmed")
    if m.get("superseded"):
        det += " (on the tree of that time; superseded: no longer a violation after a later repair)"
    rows.append(f"| {m['seed']} | {m['properties'][0]} | {what} | {ran} | {det} |")
s = open(os.path.join(ROOT, "DESIGN.md")).read()
a, b = s.index("<!-- SEED-TABLE-BEGIN -->"), s.index("<!-- SEED-TABLE-END -->")
s = s[:a] + "<!-- SEED-TABLE-BEGIN -->\n" + "\n".join(rows) + "\n" + s[b:]
open(os.path.join(ROOT, "DESIGN.md"), "w").write(s)
print(len(rows) - 2, "seeded changes")
