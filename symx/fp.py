"""Concolic double-precision mode: every value carries a concrete IEEE double (which steers all
branches of the code under analysis, so there is no forking) and a z3 Float64 term (RNE).  Every
comparison the code makes is recorded; one query per seed path then asks
    region /\ path condition /\ not property
over *all* doubles that take the same branches as the seed."""
from __future__ import annotations

import time

import numpy as np
import z3

RM = z3.RNE()
F64 = z3.Float64()


def fpval(x):
    return z3.FPVal(float(x), F64)


class FPath:
    cur = None

    def __init__(self):
        self.conds = []

    def record(self, e, val):
        self.conds.append(e if val else z3.Not(e))


class SF:
    __slots__ = ("v", "e")

    def __init__(self, v, e=None):
        if isinstance(v, SF):
            v, e = v.v, v.e
        self.v = float(v)
        self.e = fpval(v) if e is None else e

    @staticmethod
    def var(name, seed):
        return SF(seed, z3.FP(name, F64))

    @staticmethod
    def lift(x):
        if isinstance(x, SF):
            return x
        if isinstance(x, (bool, np.bool_)):
            return SF(int(x))
        if isinstance(x, (int, float, np.integer, np.floating)):
            return SF(float(x))
        return None

    def _bin(self, o, op, refl=False):
        o = SF.lift(o)
        if o is None:
            return NotImplemented
        a, b = (o, self) if refl else (self, o)
        if op == "add":
            return SF(a.v + b.v, z3.fpAdd(RM, a.e, b.e))
        if op == "sub":
            return SF(a.v - b.v, z3.fpSub(RM, a.e, b.e))
        if op == "mul":
            return SF(a.v * b.v, z3.fpMul(RM, a.e, b.e))
        if op == "div":
            return SF(a.v / b.v, z3.fpDiv(RM, a.e, b.e))
        raise AssertionError(op)

    def __add__(self, o):
        return self._bin(o, "add")

    def __radd__(self, o):
        return self._bin(o, "add", True)

    def __sub__(self, o):
        return self._bin(o, "sub")

    def __rsub__(self, o):
        return self._bin(o, "sub", True)

    def __mul__(self, o):
        return self._bin(o, "mul")

    def __rmul__(self, o):
        return self._bin(o, "mul", True)

    def __truediv__(self, o):
        return self._bin(o, "div")

    def __rtruediv__(self, o):
        return self._bin(o, "div", True)

    def __neg__(self):
        return SF(-self.v, z3.fpNeg(self.e))

    def __pos__(self):
        return self

    def __abs__(self):
        return SF(abs(self.v), z3.fpAbs(self.e))

    def _cmp(self, o, op):
        o = SF.lift(o)
        if o is None:
            return NotImplemented
        val = {"lt": self.v < o.v, "le": self.v <= o.v, "gt": self.v > o.v, "ge": self.v >= o.v,
               "eq": self.v == o.v, "ne": self.v != o.v}[op]
        e = {"lt": z3.fpLT, "le": z3.fpLEQ, "gt": z3.fpGT, "ge": z3.fpGEQ, "eq": z3.fpEQ, "ne": z3.fpNEQ}[op](self.e, o.e)
        if FPath.cur is not None:
            FPath.cur.record(e, val)
        return val

    def __lt__(self, o):
        return self._cmp(o, "lt")

    def __le__(self, o):
        return self._cmp(o, "le")

    def __gt__(self, o):
        return self._cmp(o, "gt")

    def __ge__(self, o):
        return self._cmp(o, "ge")

    def __eq__(self, o):
        r = self._cmp(o, "eq")
        return False if r is NotImplemented else r

    def __ne__(self, o):
        r = self._cmp(o, "ne")
        return True if r is NotImplemented else r

    def __hash__(self):
        return 0

    def __float__(self):
        return self.v

    def __repr__(self):
        return f"SF({self.v!r})"

    def __copy__(self):
        return self

    def __deepcopy__(self, memo):
        return self


def fp_query(region, path, negprop, timeout_s=300):
    """sat -> (model as name->float) ; unsat ; unknown"""
    s = z3.Solver()
    s.set("timeout", int(timeout_s * 1000))
    seen = set()
    for c in list(region) + list(path):
        if c.get_id() in seen:
            continue
        seen.add(c.get_id())
        s.add(c)
    s.add(negprop)
    t = time.time()
    r = s.check()
    dt = time.time() - t
    if r == z3.sat:
        m = s.model()
        out = {}
        for d in m.decls():
            v = m[d]
            try:
                out[d.name()] = float(eval(str(v).replace("+oo", "float('inf')").replace("-oo", "-float('inf')").replace("NaN", "float('nan')"))) if not z3.is_fp_value(v) else _fpfloat(v)
            except Exception:
                out[d.name()] = str(v)
        return "sat", out, dt
    return str(r), None, dt


def _fpfloat(v):
    if v.isNaN():
        return float("nan")
    if v.isInf():
        return float("-inf") if v.isNegative() else float("inf")
    import struct
    sign = 1 if v.sign() else 0
    exp = v.exponent_as_long(biased=True)
    sig = v.significand_as_long()
    bits = (sign << 63) | (exp << 52) | sig
    return struct.unpack(">d", struct.pack(">Q", bits))[0]
