"""Shims for compmec.nurbs.advanced (C19 / C20 only).

advanced.py computes with numpy float64 scalars and LAPACK.  To run it on symbolic reals three
module-level names of advanced.py are replaced while a harness runs (and only in the symbolic run --
the concrete replays use the untouched module):

  set -> SymSet      list-backed set whose membership test is '==' (forks), because symbolic numbers
                     cannot be hashed by value;
  np  -> NPProxy     forwards everything to numpy except: array/zeros/empty with dtype float64 holding
                     symbolic values become object arrays; linalg.norm / det / solve are computed exactly
                     (norm through the engine's square-root variables, det/solve for 2x2 by Cramer);
                     linspace keeps exact rationals; isclose / allclose follow numpy's documented
                     definition |a - b| <= atol + rtol*|b| element by element.
"""
from __future__ import annotations

from fractions import Fraction

import numpy as np

from .core import SV, LazySqrt


def _has_sv(x):
    if isinstance(x, (SV, LazySqrt)):
        return True
    if isinstance(x, np.ndarray):
        return x.dtype == object and any(_has_sv(v) for v in x.flat)
    if isinstance(x, (list, tuple, set, SymSet)):
        return any(_has_sv(v) for v in x)
    return False


class SymSet:
    """set semantics by '==' (each comparison of symbolic members forks)"""

    def __init__(self, items=()):
        self.items = []
        for x in items:
            self.add(x)

    def add(self, x):
        if isinstance(x, (tuple, list)):
            x = tuple(x)
        for y in self.items:
            if _same(x, y):
                return
        self.items.append(x)

    def __or__(self, other):
        r = SymSet(self.items)
        for x in other:
            r.add(x)
        return r

    __ior__ = __or__

    def __iter__(self):
        return iter(self.items)

    def __len__(self):
        return len(self.items)

    def __contains__(self, x):
        return any(_same(x, y) for y in self.items)

    def issuperset(self, other):
        return all(x in self for x in other)

    def issubset(self, other):
        other = other if isinstance(other, SymSet) else SymSet(other)
        return all(x in other for x in self.items)

    def update(self, other):
        for x in other:
            self.add(x)

    def union(self, *others):
        r = SymSet(self.items)
        for o in others:
            r.update(o)
        return r


def _same(x, y):
    if isinstance(x, tuple) or isinstance(y, tuple):
        if not (isinstance(x, tuple) and isinstance(y, tuple)) or len(x) != len(y):
            return False
        return all(bool(a == b) for a, b in zip(x, y))
    return bool(x == y)


class _Linalg:
    def __init__(self, real):
        self._real = real

    def __getattr__(self, name):
        return getattr(self._real, name)

    def norm(self, x, *a, **k):
        arr = np.asarray(x, dtype=object) if _has_sv(x) else np.asarray(x)
        if arr.dtype != object or not _has_sv(arr):
            return self._real.norm(np.asarray(x, dtype="float64"), *a, **k)
        tot = 0
        for v in arr.flat:
            tot = tot + v * v
        tot = SV.lift(tot)
        if tot.c is not None:
            return tot.sqrt(nonneg=True)
        return LazySqrt(tot)  # a sum of squares, kept unevaluated

    def det(self, m):
        if not _has_sv(m):
            return self._real.det(m)
        m = np.asarray(m, dtype=object)
        assert m.shape == (2, 2)
        return m[0, 0] * m[1, 1] - m[0, 1] * m[1, 0]

    def solve(self, A, b):
        if not _has_sv(A) and not _has_sv(b):
            return self._real.solve(A, b)
        A = np.asarray(A, dtype=object)
        b = np.asarray(b, dtype=object)
        assert A.shape == (2, 2) and b.shape == (2,)
        det = A[0, 0] * A[1, 1] - A[0, 1] * A[1, 0]
        x0 = (b[0] * A[1, 1] - A[0, 1] * b[1]) / det
        x1 = (A[0, 0] * b[1] - b[0] * A[1, 0]) / det
        return np.array([x0, x1], dtype=object)


class NPProxy:
    def __init__(self, real=np):
        self._np = real
        self.linalg = _Linalg(real.linalg)

    def __getattr__(self, name):
        return getattr(self._np, name)

    def array(self, obj, dtype=None, **kw):
        if isinstance(obj, SymSet):
            obj = tuple(obj)
        if dtype in ("float64", float, np.float64):
            # a float64 array would refuse symbolic entries written into it later: keep exact rationals instead
            arr = self._np.array(obj, dtype=object, **kw)
            flat = arr.reshape(-1) if arr.size else arr
            for i, v in enumerate(flat):
                if isinstance(v, (float, np.floating, int, np.integer)) and not isinstance(v, bool):
                    flat[i] = Fraction(v)
            return arr
        return self._np.array(obj, dtype=dtype, **kw)

    def zeros(self, shape, dtype=None, **kw):
        if dtype in ("float64", float, np.float64):
            arr = self._np.empty(shape, dtype=object)
            arr.fill(Fraction(0))
            return arr
        return self._np.zeros(shape, dtype=dtype, **kw)

    def empty(self, shape, dtype=None, **kw):
        if dtype in ("float64", float, np.float64):
            return self._np.empty(shape, dtype=object)
        return self._np.empty(shape, dtype=dtype, **kw)

    def linspace(self, a, b, n, **kw):
        if isinstance(a, (int, Fraction)) and isinstance(b, (int, Fraction)):
            return self._np.array([Fraction(a) + (Fraction(b) - Fraction(a)) * Fraction(k, n - 1) for k in range(n)], dtype=object)
        return self._np.linspace(a, b, n, **kw)

    def abs(self, x):
        if isinstance(x, SV):
            return abs(x)
        if isinstance(x, (list, tuple)) and _has_sv(x):
            x = self._np.array(x, dtype=object)
        return self._np.abs(x)

    def isclose(self, a, b, rtol=1e-05, atol=1e-08, **kw):
        """numpy's documented definition, element by element: |a - b| <= atol + rtol * |b|"""
        if not (_has_sv(a) or _has_sv(b)):
            return self._np.isclose(a, b, rtol=rtol, atol=atol, **kw)
        aa, bb = self._np.asarray(a, dtype=object), self._np.asarray(b, dtype=object)
        aa, bb = self._np.broadcast_arrays(aa, bb)
        out = self._np.empty(aa.shape, dtype=bool)
        for idx in self._np.ndindex(aa.shape):
            x, y = aa[idx], bb[idx]
            if x is y:
                out[idx] = True
                continue
            d = x - y
            out[idx] = bool(abs(d) <= Fraction(atol) + Fraction(rtol) * abs(y))
        return out if out.shape else bool(out)

    def allclose(self, a, b, rtol=1e-05, atol=1e-08, **kw):
        return bool(self._np.all(self.isclose(a, b, rtol=rtol, atol=atol, **kw)))

    def min(self, x, *a, **k):
        if _has_sv(x):
            vals = list(np.asarray(x, dtype=object).flat)
            if not vals:
                raise ValueError("zero-size array to reduction operation minimum which has no identity")
            m = vals[0]
            for v in vals[1:]:
                if bool(v < m):
                    m = v
            return m
        return self._np.min(x, *a, **k)


def install(env, advanced):
    """replace set / np inside compmec.nurbs.advanced for the duration of this run (symbolic mode only)"""
    if not env.sym:
        return
    proxy = NPProxy(np)
    env.patch(advanced, "np", proxy)
    advanced.set = SymSet
    env._stack.callback(lambda: advanced.__dict__.pop("set", None))
    old = SV.numpy_scalar_mode
    SV.numpy_scalar_mode = True
    env._stack.callback(lambda: setattr(SV, "numpy_scalar_mode", old))
