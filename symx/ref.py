"""Reference oracles, written from the textbook definitions, generic over Fraction and SV.

None of this imports compmec.nurbs.  A knot vector is described *structurally* (distinct values +
multiplicities) so that the 0/0 := 0 convention of Cox-de Boor is resolved from the multiplicity
pattern and never from a numeric comparison.
"""
from __future__ import annotations

from fractions import Fraction

import numpy as np

from .core import SV, Ctx
from . import core


def divnz(a, b):
    """a / b where b is non-zero by construction (difference of two distinct ordered knots):
    for SV operands no zero-test fork is made."""
    if isinstance(b, SV) and b.c is None:
        a = SV.lift(a)
        if a.c == 0:
            return a
        n = a.n * core._prod_atoms(b.d) if b.d else a.n
        atom, negatom = b.n, core._som(-b.n)
        if negatom.get_id() < atom.get_id():
            atom, n = negatom, -n
        return SV.norm(n, core._den_mul(a.d, ((atom, 1),)), a.t or b.t)
    if isinstance(b, SV):
        b = b.c
    if isinstance(a, SV):
        return a / b
    if isinstance(a, (int, np.integer)) and isinstance(b, (int, np.integer)):
        return Fraction(int(a), int(b))
    return a / b


class KV:
    """clamped knot vector given by distinct values and multiplicities"""

    def __init__(self, vals, mults, degree=None):
        self.vals = list(vals)
        self.mults = list(mults)
        assert len(self.vals) == len(self.mults) >= 2
        self.U = []
        self.idx = []
        for d, (v, m) in enumerate(zip(self.vals, self.mults)):
            self.U += [v] * m
            self.idx += [d] * m
        self.p = self.mults[0] - 1 if degree is None else degree
        self.n = len(self.U) - self.p - 1  # npts
        self.nint = len(self.vals) - 1

    @property
    def umin(self):
        return self.vals[0]

    @property
    def umax(self):
        return self.vals[-1]

    def well_formed(self):
        p = self.p
        return (self.mults[0] == p + 1 and self.mults[-1] == p + 1 and all(1 <= m <= p + 1 for m in self.mults)
                and self.n > p)

    def locate(self, u):
        """index d of the knot interval [vals[d], vals[d+1]) containing u (last interval at umax).
        Decides by comparisons (forks in symbolic mode)."""
        for d in range(self.nint - 1):
            if u < self.vals[d + 1]:
                return d
        return self.nint - 1

    def span_of(self, d):
        """span index (position k with U[k] <= u < U[k+1]) of interval d"""
        return sum(self.mults[: d + 1]) - 1

    def insert(self, d_or_val, times=1, new_after=None):
        raise NotImplementedError


def basis_row(kv: KV, j: int, u, d: int):
    """[N_{0,j}(u), ..., N_{n+p-j-1,j}(u)] for u in interval d, by the Cox-de Boor recursion.
    For j = p this has n entries; for j < p it has len(U)-j-1 entries of which the library exposes
    the first n."""
    U, idx = kv.U, kv.idx
    m = len(U)
    prev = [1 if (idx[i] == d and idx[i + 1] == d + 1) else 0 for i in range(m - 1)]
    for jj in range(1, j + 1):
        cur = []
        for i in range(m - jj - 1):
            val = 0
            if idx[i + jj] != idx[i] and not _iszero(prev[i]):
                val = val + divnz(u - U[i], U[i + jj] - U[i]) * prev[i]
            if idx[i + jj + 1] != idx[i + 1] and not _iszero(prev[i + 1]):
                val = val + divnz(U[i + jj + 1] - u, U[i + jj + 1] - U[i + 1]) * prev[i + 1]
            cur.append(val)
        prev = cur
    return prev


def _iszero(x):
    if isinstance(x, SV):
        return x.c == 0
    if isinstance(x, Poly):
        return x.iszero()
    return x == 0


def curve_value(kv: KV, P, W, u, d):
    """sum_i R_i(u) P_i on interval d (W None -> polynomial)"""
    N = basis_row(kv, kv.p, u, d)[: kv.n]
    if W is None:
        acc = None
        for Ni, Pi in zip(N, P):
            if _iszero(Ni):
                continue
            t = Ni * Pi
            acc = t if acc is None else acc + t
        return acc if acc is not None else 0 * P[0]
    num, den = None, None
    for Ni, Pi, wi in zip(N, P, W):
        if _iszero(Ni):
            continue
        t = Ni * (wi * Pi)  # w_i * P_i first: a control point carrying 1/w_i cancels exactly
        num = t if num is None else num + t
        s = Ni * wi
        den = s if den is None else den + s
    return num, den


# -- tiny polynomial type (coefficients Fraction / SV / anything with + and *) ------------------
class Poly:
    __slots__ = ("c",)

    def __init__(self, c):
        c = list(c)
        while len(c) > 1 and _iszero(c[-1]):
            c.pop()
        self.c = c

    @staticmethod
    def x():
        return Poly([0, 1])

    def iszero(self):
        return len(self.c) == 1 and _iszero(self.c[0])

    def deg(self):
        return len(self.c) - 1

    def _lift(self, o):
        return o if isinstance(o, Poly) else Poly([o])

    def __add__(self, o):
        o = self._lift(o)
        n = max(len(self.c), len(o.c))
        return Poly([(self.c[i] if i < len(self.c) else 0) + (o.c[i] if i < len(o.c) else 0) for i in range(n)])

    __radd__ = __add__

    def __neg__(self):
        return Poly([-a for a in self.c])

    def __sub__(self, o):
        return self + (-self._lift(o))

    def __rsub__(self, o):
        return self._lift(o) - self

    def __mul__(self, o):
        if not isinstance(o, Poly):
            if isinstance(o, np.ndarray):
                return NotImplemented
            return Poly([a * o for a in self.c])
        r = [0] * (len(self.c) + len(o.c) - 1)
        for i, a in enumerate(self.c):
            if _iszero(a):
                continue
            for k, b in enumerate(o.c):
                r[i + k] = r[i + k] + a * b
        return Poly(r)

    def __rmul__(self, o):
        return Poly([o * a for a in self.c])

    def __truediv__(self, o):
        return Poly([divnz(a, o) for a in self.c])

    def __call__(self, u):
        acc = 0
        for a in reversed(self.c):
            acc = acc * u + a
        return acc

    def derivative(self):
        if len(self.c) == 1:
            return Poly([0 * self.c[0]])
        return Poly([k * a for k, a in enumerate(self.c)][1:])

    def integral(self, a, b):
        """exact integral over [a, b]"""
        acc = 0
        for k, ck in enumerate(self.c):
            acc = acc + ck * divnz(b ** (k + 1) - a ** (k + 1), k + 1)
        return acc


def basis_polys(kv: KV, j: int, d: int):
    """the basis functions of degree j restricted to interval d, as polynomials in u"""
    # divnz with Poly numerator: (u - U_i)/(den) -> Poly / scalar
    U, idx = kv.U, kv.idx
    m = len(U)
    x = Poly.x()
    prev = [Poly([1]) if (idx[i] == d and idx[i + 1] == d + 1) else Poly([0]) for i in range(m - 1)]
    for jj in range(1, j + 1):
        cur = []
        for i in range(m - jj - 1):
            val = Poly([0])
            if idx[i + jj] != idx[i] and not prev[i].iszero():
                val = val + ((x - U[i]) / (U[i + jj] - U[i])) * prev[i]
            if idx[i + jj + 1] != idx[i + 1] and not prev[i + 1].iszero():
                val = val + ((U[i + jj + 1] - x) / (U[i + jj + 1] - U[i + 1])) * prev[i + 1]
            cur.append(val)
        prev = cur
    return prev


def gram(kva: KV, kvb: KV):
    """G[i][k] = integral of N^a_i N^b_k over the common interval; both vectors must have the same
    distinct breakpoints refined to their union (concrete Fractions only)."""
    brk = sorted(set(kva.vals) | set(kvb.vals))
    G = [[Fraction(0)] * kvb.n for _ in range(kva.n)]
    for lo, hi in zip(brk[:-1], brk[1:]):
        da = max(d for d in range(kva.nint) if kva.vals[d] <= lo)
        db = max(d for d in range(kvb.nint) if kvb.vals[d] <= lo)
        pa = basis_polys(kva, kva.p, da)[: kva.n]
        pb = basis_polys(kvb, kvb.p, db)[: kvb.n]
        for i, A in enumerate(pa):
            if A.iszero():
                continue
            for k, B in enumerate(pb):
                if B.iszero():
                    continue
                G[i][k] += (A * B).integral(lo, hi)
    return G


def curve_poly(kv: KV, P, d):
    """polynomial piece of sum N_i P_i on interval d (P scalars)"""
    polys = basis_polys(kv, kv.p, d)[: kv.n]
    acc = Poly([0])
    for A, Pi in zip(polys, P):
        if A.iszero():
            continue
        acc = acc + A * Pi
    return acc


def kv_from_list(vec, degree=None):
    """concrete list -> KV (exact equality of Fractions/ints)"""
    vals, mults = [], []
    for v in vec:
        if vals and vals[-1] == v:
            mults[-1] += 1
        else:
            vals.append(v)
            mults.append(1)
    return KV(vals, mults, degree)
