"""Structural families: multiplicity patterns (mode S) and concrete knot vectors (mode K)."""
from __future__ import annotations

import itertools
import random
from fractions import Fraction


def patterns(p, interior, maxmult=None):
    """all multiplicity patterns [p+1, m1..mk, p+1] with k = interior distinct interior knots"""
    mm = p + 1 if maxmult is None else min(maxmult, p + 1)
    for ms in itertools.product(range(1, mm + 1), repeat=interior):
        yield [p + 1] + list(ms) + [p + 1]


def pattern_family(degrees, max_interior, cap=None, seed=0, maxmult=None):
    out = []
    for p in degrees:
        for k in range(0, max_interior + 1):
            for pat in patterns(p, k, maxmult):
                out.append((p, pat))
    if cap is not None and len(out) > cap:
        rnd = random.Random(seed)
        keep = [c for c in out if len(c[1]) <= 3]
        rest = [c for c in out if len(c[1]) > 3]
        rnd.shuffle(rest)
        out = keep + rest[: max(0, cap - len(keep))]
    return out


# value pools for concrete vectors: non-uniform, include 0 and negative values
POOLS = [
    [Fraction(0), Fraction(1, 3), Fraction(1, 2), Fraction(4, 5), Fraction(1)],
    [Fraction(-2), Fraction(-1, 2), Fraction(0), Fraction(3, 7), Fraction(5, 2)],
    [Fraction(1), Fraction(5, 4), Fraction(2), Fraction(7, 2), Fraction(4)],
    [Fraction(-3), Fraction(-5, 2), Fraction(-1), Fraction(-1, 3), Fraction(0)],
]


def concrete_values(ndist, seed=0, k=0):
    """ndist increasing Fractions; first and last from the pool ends"""
    pool = POOLS[(seed + k) % len(POOLS)]
    if ndist > len(pool):
        lo, hi = pool[0], pool[-1]
        rnd = random.Random(seed * 977 + k)
        cuts = sorted(rnd.sample(range(1, 60), ndist - 2))
        return [lo] + [lo + (hi - lo) * Fraction(c, 60) for c in cuts] + [hi]
    if ndist == 2:
        return [pool[0], pool[-1]]
    rnd = random.Random(seed * 131 + k)
    mid = sorted(rnd.sample(pool[1:-1], ndist - 2))
    return [pool[0]] + mid + [pool[-1]]


def expand(vals, mults):
    out = []
    for v, m in zip(vals, mults):
        out += [v] * m
    return out
