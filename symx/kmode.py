"""Helpers for concrete-knot (K) mode: knot vectors are Fractions, control points / weights / data are
symbolic; two curves are compared as piecewise polynomials, coefficient by coefficient."""
from __future__ import annotations

from fractions import Fraction

import numpy as np

from .core import SV
from .ref import KV, Poly, basis_polys, kv_from_list, divnz


def coords(P):
    """list of points -> list of coordinate lists (scalars: one coordinate)"""
    P = [pt.item() if isinstance(pt, np.ndarray) and pt.ndim == 0 else pt for pt in P]
    first = P[0]
    if isinstance(first, (np.ndarray, list, tuple)):
        dim = len(first)
        return [[pt[k] for pt in P] for k in range(dim)]
    return [list(P)]


def piece(kv: KV, vals, d):
    """polynomial of sum_i N_i vals_i on interval d (vals scalars)"""
    polys = basis_polys(kv, kv.p, d)[: kv.n]
    acc = Poly([0])
    for A, v in zip(polys, vals):
        if A.iszero():
            continue
        acc = acc + A * v
    return acc


def interval_of(kv: KV, x):
    """index of the knot interval of kv containing [x, x+eps) (concrete knots)"""
    d = 0
    for k in range(kv.nint):
        if kv.vals[k] <= x:
            d = k
    return d


def breakpoints(*kvs, lo=None, hi=None):
    pts = set()
    for kv in kvs:
        pts |= set(kv.vals)
    pts = sorted(pts)
    if lo is not None:
        pts = [x for x in pts if lo <= x <= hi]
    return pts


def num_den(kv: KV, P, W, d):
    """per coordinate numerator polynomials and the denominator polynomial on interval d"""
    cs = coords(P)
    if W is None:
        return [piece(kv, c, d) for c in cs], Poly([1])
    nums = [piece(kv, [w * x for w, x in zip(W, c)], d) for c in cs]
    return nums, piece(kv, list(W), d)


def pad(c, n):
    return list(c) + [0] * (n - len(c))


def poly_eq(env, name, A: Poly, B: Poly):
    n = max(len(A.c), len(B.c))
    return env.eq(name, pad(A.c, n), pad(B.c, n))


def same_function(env, tag, kvA, P, WA, kvB, Q, WB, lo=None, hi=None):
    """A and B are the same function on [lo, hi] (default: the whole common interval): on every
    interval between consecutive breakpoints the polynomial pieces agree (rational: cross-multiplied)"""
    lo = kvA.vals[0] if lo is None else lo
    hi = kvA.vals[-1] if hi is None else hi
    pts = breakpoints(kvA, kvB, lo=lo, hi=hi)
    ok = True
    for a, b in zip(pts[:-1], pts[1:]):
        dA, dB = interval_of(kvA, a), interval_of(kvB, a)
        nA, denA = num_den(kvA, P, WA, dA)
        nB, denB = num_den(kvB, Q, WB, dB)
        if len(nA) != len(nB):
            env.fail(f"{tag}: point dimension differs")
            return False
        for k, (x, y) in enumerate(zip(nA, nB)):
            ok &= poly_eq(env, f"{tag}: same function on [{a},{b}] coord {k}", x * denB, y * denA)
    return ok


def l2_sq(kvA, P, kvB, Q, lo=None, hi=None):
    """per coordinate exact integral of (A - B)^2 (polynomial curves)"""
    lo = kvA.vals[0] if lo is None else lo
    hi = kvA.vals[-1] if hi is None else hi
    pts = breakpoints(kvA, kvB, lo=lo, hi=hi)
    out = []
    for ca, cb in zip(coords(P), coords(Q)):
        tot = 0
        for a, b in zip(pts[:-1], pts[1:]):
            diff = piece(kvA, ca, interval_of(kvA, a)) - piece(kvB, cb, interval_of(kvB, a))
            tot = tot + (diff * diff).integral(a, b)
        out.append(tot)
    return out


def state(curve):
    return (tuple(curve.knotvector), curve.ctrlpoints, curve.weights)


def flat_objs(x):
    if x is None:
        return None
    out = []
    for v in x:
        if isinstance(v, np.ndarray):
            out.extend(v.tolist())
        else:
            out.append(v)
    return out


def snapshot(curve):
    """references to every number the curve holds (kept alive so identity tests are meaningful)"""
    kv, cp, w = state(curve)
    return (list(kv), flat_objs(cp), flat_objs(w))


def _same(a, b):
    if a is None or b is None:
        return a is None and b is None
    if len(a) != len(b):
        return False
    for x, y in zip(a, b):
        if x is y:
            continue
        if type(x) is not type(y):
            return False
        if isinstance(x, (int, float, Fraction)) and x == y:
            continue  # value types: an equal immutable number is the same value
        if isinstance(x, SV) and x.d == y.d and x.n.eq(y.n):
            continue
        return False
    return True


def unchanged(env, curve, snap, tag):
    now = snapshot(curve)
    env.holds(f"{tag}: knot vector, control points and weights are exactly as before",
              all(_same(a, b) for a, b in zip(now, snap)))


def lib_kv(curve_or_vector):
    """library knot vector (concrete) -> KV"""
    vec = getattr(curve_or_vector, "knotvector", curve_or_vector)
    return kv_from_list([Fraction(x) for x in vec], vec.degree)


def to_bernstein(poly: Poly, a, b, n=None):
    """Bernstein coefficients on [a, b] (degree n >= deg poly) of a polynomial given in powers of u.
    |p(u)| <= max |b_k| on [a, b] (convex hull property), so bounds on these coefficients are bounds
    on the function."""
    from math import comb
    h = b - a
    # powers of t where u = a + h t  (Horner composition)
    c = list(poly.c)
    q = Poly([0])
    lin = Poly([a, h])
    for ck in reversed(c):
        q = q * lin + ck
    d = len(q.c) - 1
    n = d if n is None else max(n, d)
    pc = pad(q.c, n + 1)
    out = []
    for k in range(n + 1):
        acc = 0
        for j in range(k + 1):
            acc = acc + pc[j] * Fraction(comb(k, j), comb(n, j))
        out.append(acc)
    return out
