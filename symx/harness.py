"""Harness environment, per-configuration runner, worker pool, evidence and replay files."""
from __future__ import annotations

import contextlib
import hashlib
import importlib
import json
import multiprocessing as mp
import os
import re
import sys
import time
import traceback
from fractions import Fraction

import numpy as np

REPO_SRC = os.environ.get("SYMX_REPO_SRC", "/repo/src")  # (selftest runs a scratch copy; checks use /repo)
if hasattr(sys, "set_int_max_str_digits"):
    sys.set_int_max_str_digits(0)
if REPO_SRC not in sys.path:
    sys.path.insert(0, REPO_SRC)

import z3  # noqa: E402

from . import core  # noqa: E402
from .core import SV, SBool, Ctx, explore, prove, prove_eq, PathAbort, Concretised, Inconclusive  # noqa: E402

VERIF = os.path.dirname(os.path.dirname(os.path.abspath(__file__)))


class AssumptionFailed(BaseException):
    pass


class Unexpected(Exception):
    """raised by harness bodies for an outcome the property forbids (wrong exception, no exception)"""


def fr_str(x):
    if isinstance(x, Fraction):
        return f"{x.numerator}/{x.denominator}" if x.denominator != 1 else str(x.numerator)
    return str(x)


def fr_parse(s):
    return Fraction(s)


def flatten(x, out=None):
    """nested sequence of numbers -> (shape signature, flat list)"""
    if out is None:
        out = []
    if isinstance(x, np.ndarray) and x.ndim == 0:
        x = x.item()
    if isinstance(x, (list, tuple, np.ndarray)):
        sig = tuple(flatten(v, out)[0] for v in x)
        return ("seq", sig), out
    out.append(x)
    return "n", out


class Env:
    """What a harness body sees.  sym=True: inputs are SV and obligations go to the solver;
    sym=False: inputs are Fractions (a model / a replay file) and obligations are evaluated."""

    def __init__(self, sym, cfg, ctx=None, inputs=None, known=(), prop_id="", obl_timeout_ms=20000,
                 floats=False):
        self.sym = sym
        self.cfg = cfg
        self.ctx = ctx
        self.inputs = dict(inputs or {})
        self.known = known
        self.prop_id = prop_id
        self.obl_timeout_ms = obl_timeout_ms
        self.floats = floats  # concrete mode only: hand out float(inputs) instead of Fractions
        self.vars = {}  # name -> SV / Fraction, in creation order
        self.nice = []
        self.extra_inputs = {}  # values found by a side engine (FP mode) that a replay needs
        self.n_obl = 0
        self.n_ok = 0
        self.n_unknown = 0
        self.failed = []  # (name, detail, model|None) symbolic: cex;  concrete: failed evaluation
        self.unknown = []
        self.observed = []  # (name, value)
        self.known_hits = []
        self.notes = []
        self._stack = contextlib.ExitStack()

    # -- inputs --------------------------------------------------------------------------------
    def real(self, name, nice=(-50, 50)):
        """nice: preferred range for witness models (not an assumption)"""
        if name in self.vars:
            return self.vars[name]
        if self.sym:
            v = SV.var(name)
            self.ctx.vars[name] = v.n
            if nice is not None:
                self.nice.append(z3.And(v.n >= core._rv(Fraction(nice[0])), v.n <= core._rv(Fraction(nice[1]))))
        else:
            v = self.inputs.get(name, Fraction(0))
            if self.floats:
                v = float(v)
        self.vars[name] = v
        return v

    def reals(self, prefix, n, nice=(-50, 50)):
        return [self.real(f"{prefix}{i}", nice) for i in range(n)]

    def positives(self, prefix, n):
        ws = self.reals(prefix, n, nice=(Fraction(1, 20), 20))
        for w in ws:
            self.assume(w > 0)
        return ws

    def const(self, x):
        """a constant that must travel as the same number type as the symbolic inputs"""
        if self.sym:
            return SV.const(x)
        return float(x) if self.floats else Fraction(x)

    def ordered(self, prefix, n, gap=Fraction(1, 100000)):
        """n reals with t0 < t1 < ... and neighbours at least `gap` apart"""
        ts = self.reals(prefix, n)
        for a, b in zip(ts[:-1], ts[1:]):
            self.assume(b - a >= gap)
        return ts

    def assume(self, cond):
        if self.sym:
            self.ctx.assume(cond)
        else:
            if not bool(cond):
                raise AssumptionFailed()

    # -- patches (stubs / shims) --------------------------------------------------------------
    def patch(self, obj, attr, value):
        old = getattr(obj, attr)
        setattr(obj, attr, value)
        self._stack.callback(setattr, obj, attr, old)

    def close(self):
        self._stack.close()

    # -- known findings -----------------------------------------------------------------------
    def _region(self, kf):
        """evaluate a known finding's region predicate over the current inputs (SBool/bool)"""
        ns = dict(self.vars)
        ns["cfg"] = self.cfg
        ns["Fraction"] = Fraction
        ns["And"] = lambda *a: _and(*a)
        ns["Or"] = lambda *a: _or(*a)
        try:
            return eval(kf["region"], {"__builtins__": {"abs": abs, "len": len, "any": any, "all": all,
                                                         "min": min, "max": max}}, ns)
        except NameError:
            return False

    def _matching_known(self, name):
        out = []
        for kf in self.known:
            if kf.get("status", "open") != "open":
                continue
            if kf["property"] != self.prop_id:
                continue
            if not re.search(kf["obligation"], name):
                continue
            if "config" in kf and not re.search(kf["config"], self.cfg.get("name", "")):
                continue
            out.append(kf)
        return out

    # -- obligations --------------------------------------------------------------------------
    def _record(self, name, res, model, detail=""):
        self.n_obl += 1
        if res == "valid":
            self.n_ok += 1
        elif res == "unknown":
            self.n_unknown += 1
            self.unknown.append(name)
        else:
            self.failed.append((name, detail, model))

    def _decide(self, name, fn, detail=""):
        """fn(extra) -> (res, model).  Handles exclusion of known-finding regions."""
        extra = []
        res, model = fn(extra)
        tries = 0
        while res == "cex" and model is not None and tries < 6:
            hit = None
            for kf in self._matching_known(name):
                reg = self._region(kf)
                if isinstance(reg, SBool):
                    val = z3.is_true(model.eval(reg.e, model_completion=True))
                else:
                    val = bool(reg)
                if val:
                    hit = (kf, reg)
                    break
            if hit is None:
                break
            kf, reg = hit
            self.known_hits.append((kf["id"], name, self._model_inputs(model)))
            extra.append(z3.Not(core.zbool(reg)))
            res, model = fn(extra)
            tries += 1
        self._record(name, res, model, detail)
        return res == "valid"

    def _model_inputs(self, model):
        out = {}
        for k, v in self.vars.items():
            if isinstance(v, SV):
                try:
                    out[k] = fr_str(core.model_value(model, v))
                except ValueError:
                    out[k] = "0"
        out.update(self.extra_inputs)
        return out

    def inject(self, name, value):
        """record a concrete input found outside the real-arithmetic engine (exact value of a double)"""
        self.extra_inputs[name] = fr_str(Fraction(value))

    def eq(self, name, a, b):
        """obligation: a == b (numbers or equally shaped nested sequences), for all inputs on this path"""
        sa, fa = flatten(a)
        sb, fb = flatten(b)
        if sa != sb:
            if self.sym:
                return self._decide(name, lambda extra: prove(self.ctx, False, self.obl_timeout_ms, extra), f"shape {sa} != {sb}")
            self._record(name, "cex", None, f"shape {sa} != {sb}")
            return False
        ok = True
        for k, (x, y) in enumerate(zip(fa, fb)):
            nm = name if len(fa) == 1 else f"{name}[{k}]"
            if self.sym:
                if not isinstance(x, SV) and not isinstance(y, SV):
                    cx, cy = core._const(x), core._const(y)
                    if cx is None or cy is None:
                        same = bool(x == y)
                    else:
                        same = cx == cy
                    if same:
                        self._record(nm, "valid", None)
                    else:
                        self._record(nm, "cex", self.ctx.model()[1], f"{x!r} != {y!r}")
                        ok = False
                    continue
                ok &= self._decide(nm, lambda extra, x=x, y=y: prove_eq(self.ctx, x, y, self.obl_timeout_ms, extra),
                                   "values differ")
            else:
                if self.floats:
                    good = abs(x - y) <= 1e-9 * max(1.0, abs(x), abs(y))
                else:
                    good = bool(x == y)
                if good:
                    self._record(nm, "valid", None)
                else:
                    self._record(nm, "cex", None, f"{x!r} != {y!r}")
                    ok = False
        return ok

    def holds(self, name, cond, detail="", using=None):
        """obligation: cond is true for all inputs on this path.  using: a list of facts, each already established
        by an obligation of its own, to be used *instead of* the path condition (a lemma-style split that keeps
        the solver's problem small)"""
        if self.sym:
            return self._decide(name, lambda extra: prove(self.ctx, cond, self.obl_timeout_ms, extra, premises=using), detail)
        good = bool(cond)
        self._record(name, "valid" if good else "cex", None, detail)
        return good

    def fail(self, name, detail=""):
        """the path itself is a violation (e.g. a forbidden exception was raised)"""
        return self.holds(name, False, detail)

    def observe(self, name, value):
        self.observed.append((name, value))

    def note(self, s):
        self.notes.append(s)


def _and(*a):
    r = True
    for x in a:
        r = r & x if not isinstance(r, bool) or isinstance(x, SBool) else (r and x)
    return r


def _or(*a):
    r = False
    for x in a:
        r = r | x if not isinstance(r, bool) or isinstance(x, SBool) else (r or x)
    return r


# -- concrete run -------------------------------------------------------------------------------
def run_concrete(prop, cfg, inputs, known=(), floats=False):
    """Run the harness body on the real code with plain numbers.
    Returns dict(outcome=ok|exc|assume, exc=..., failed=[names], observed=[...])."""
    env = Env(False, cfg, inputs={k: Fraction(v) for k, v in inputs.items()}, known=known, prop_id=prop.ID,
              floats=floats or bool(cfg.get("floats")))
    res = dict(outcome="ok", exc=None, failed=[], observed=[], detail=[])
    wd = getattr(prop, "CONCRETE_WATCHDOG_S", None)
    if wd:
        import signal

        def _alarm(*a):
            raise TimeoutError(f"no result after {wd} s (non-termination watchdog)")
        old_handler = signal.signal(signal.SIGALRM, _alarm)
        signal.setitimer(signal.ITIMER_REAL, wd)
    try:
        prop.body(env, cfg)
    except AssumptionFailed:
        res["outcome"] = "assume"
    except Exception as e:
        res["outcome"] = "exc"
        res["exc"] = f"{type(e).__name__}: {e}"
        res["exc_type"] = type(e).__name__
        res["tb"] = traceback.format_exc(limit=8)
    finally:
        if wd:
            signal.setitimer(signal.ITIMER_REAL, 0)
            signal.signal(signal.SIGALRM, old_handler)
        env.close()
    res["failed"] = [n for n, d, m in env.failed]
    res["detail"] = [f"{n}: {d}" for n, d, m in env.failed]
    res["observed"] = env.observed
    res["n_obl"] = env.n_obl
    return res


# -- one configuration, all paths --------------------------------------------------------------
_profile_funcs = set()


def _profiler(frame, event, arg):
    if event == "call":
        co = frame.f_code
        if co.co_filename.startswith(REPO_SRC):
            _profile_funcs.add(os.path.basename(co.co_filename)[:-3] + "." + getattr(co, "co_qualname", co.co_name))


def run_config(prop, cfg, known=(), max_paths=None, validate=True):
    t0 = time.time()
    core.reset_stats()
    _profile_funcs.clear()
    out = dict(cfg=cfg, paths=0, decisions=0, aborted=0, obligations=0, discharged=0, unknown=0,
               witness_ok=0, witness_skipped=0, violations=[], known=[], errors=[], samples=[],
               path_exc=0, infeasible_end=0)
    holder = {}
    first = [True]

    def body(ctx):
        env = Env(True, cfg, ctx=ctx, known=known, prop_id=prop.ID,
                  obl_timeout_ms=getattr(prop, "OBL_TIMEOUT_MS", 20000))
        holder["env"] = env
        if first[0]:
            sys.setprofile(_profiler)
        try:
            prop.body(env, cfg)
        finally:
            if first[0]:
                sys.setprofile(None)
                first[0] = False
            env.close()
        return env

    def confirm(env, name, detail, model, inputs=None):
        """replay a counterexample on the real code with plain Fractions"""
        if inputs is None:
            if model is None:
                out["errors"].append(f"{name}: counterexample without model ({detail})")
                return
            inputs = env._model_inputs(model)
        r = run_concrete(prop, cfg, inputs, known)
        if r["outcome"] == "assume":
            out["errors"].append(f"{name}: model violates an assumption on replay: {inputs}")
            return
        if r["outcome"] == "exc" or r["failed"]:
            what = r["exc"] if r["outcome"] == "exc" else "; ".join(r["detail"][:3])
            out["violations"].append(dict(obligation=name, inputs=inputs, observed=what, cfg=cfg))
        else:
            out["errors"].append(f"{name}: solver counterexample does not reproduce on the real code: {inputs} ({detail})")

    def on_path(ctx, kind, payload):
        env = holder.get("env")
        out["paths"] += 1
        if kind == "abort":
            out["aborted"] += 1
            return
        if kind == "concretised":
            # the code asked for a concrete value of a symbolic number (int(x), float(x) that is used, ...): this path cannot
            # be encoded.  Before giving up, replay a model of the path on the real code: if the property fails there, that
            # is a violation with a concrete witness; otherwise the configuration stays inconclusive.
            r0, m0 = ctx.model(env.nice) if env is not None and env.nice else ("unknown", None)
            if r0 != "sat":
                r0, m0 = ctx.model()
            if r0 == "sat" and env is not None:
                inputs = env._model_inputs(m0)
                rc = run_concrete(prop, cfg, inputs, known)
                if rc["outcome"] == "exc" or rc["failed"]:
                    what = rc["exc"] if rc["outcome"] == "exc" else "; ".join(rc["detail"][:3])
                    name = "exception:" + rc.get("exc_type", "") if rc["outcome"] == "exc" else rc["failed"][0]
                    out["violations"].append(dict(obligation=name, inputs=inputs, observed=what, cfg=cfg))
                    return
            out["errors"].append(f"not encodable: {payload}")
            return
        r, m = ctx.model(env.nice) if env is not None and env.nice and not os.environ.get("SYMX_NO_NICE") else ("unknown", None)
        if r != "sat":
            r, m = ctx.model()
        if r == "unsat":
            out["infeasible_end"] += 1
            return
        if kind == "exc":
            out["path_exc"] += 1
            e = payload
            name = f"exception:{type(e).__name__}"
            if r != "sat":
                out["errors"].append(f"{name} on a path whose feasibility is unknown: {e}")
                return
            inputs = env._model_inputs(m)
            extra = []
            for _ in range(6):
                rc = run_concrete(prop, cfg, inputs, known)
                same_type = rc.get("exc_type") == type(e).__name__
                if rc["outcome"] == "exc" and not same_type and cfg.get("floats"):
                    same_type = True  # float64 replay of a real-number path: e.g. 0/0 is nan (and a hang) instead of ZeroDivisionError
                if not (rc["outcome"] == "exc" and same_type):
                    tb = "".join(traceback.format_exception(type(e), e, e.__traceback__, limit=-6))
                    out["errors"].append(f"{name} raised symbolically but concrete replay gave {rc['outcome']} "
                                         f"{rc.get('exc')} for {inputs}: {e}\n{tb}")
                    return
                hit = None
                for kf in env._matching_known(name):
                    reg = env._region(kf)
                    val = z3.is_true(m.eval(reg.e, model_completion=True)) if isinstance(reg, SBool) else bool(reg)
                    if val:
                        hit = (kf, reg)
                        break
                if hit is None:
                    out["violations"].append(dict(obligation=name, inputs=inputs, observed=rc["exc"], cfg=cfg))
                    return
                out["known"].append((hit[0]["id"], name, inputs))
                extra.append(z3.Not(core.zbool(hit[1])))
                r2, m = ctx.model(extra)
                if r2 != "sat":
                    if r2 == "unknown":
                        out["errors"].append(f"{name}: could not decide whether the path leaves the known region")
                    return
                inputs = env._model_inputs(m)
            return
        # normal completion
        out["obligations"] += env.n_obl
        out["discharged"] += env.n_ok
        out["unknown"] += env.n_unknown
        for kid, name, inp in env.known_hits:
            out["known"].append((kid, name, inp))
        for name in env.unknown:
            out["errors"].append(f"obligation {name} undecided (solver unknown/timeout)")
        for name, detail, model in env.failed:
            confirm(env, name, detail, model)
        if len(out["samples"]) < 2 and r == "sat":
            out["samples"].append(dict(
                inputs=env._model_inputs(m),
                path_condition=[str(c)[:160] for c in ctx.path[:12]],
                obligations=env.n_obl, proved=env.n_ok, notes=env.notes[:6]))
        if validate and r == "sat" and not env.failed:
            inputs = env._model_inputs(m)
            rc = run_concrete(prop, cfg, inputs, known)
            if rc["outcome"] == "assume":
                out["witness_skipped"] += 1
            elif rc["outcome"] == "exc":
                out["errors"].append(f"witness replay raised {rc['exc']} where the symbolic path completed: {inputs}\n{rc.get('tb')}")
            elif rc["failed"] and not env.known_hits and cfg.get("floats"):
                # float64 replay of a real-number path fails an obligation.  Next to a decision boundary that is a rounding
                # effect; if the same obligation also fails at nearby admissible inputs it is a failure of the float code
                # itself (e.g. duplicates that only differ in the last bit) and is reported with the float witness.
                robust = 0
                for step in (Fraction(1, 997), Fraction(-1, 1009), Fraction(1, 4999)):
                    pert = {k: (fr_str(Fraction(v) + step) if k in env.vars and isinstance(env.vars[k], SV) else v)
                            for k, v in inputs.items()}
                    r2 = run_concrete(prop, cfg, pert, known)
                    if r2["outcome"] == "ok" and set(r2["failed"]) & set(rc["failed"]):
                        robust += 1
                if robust >= 2:
                    out["violations"].append(dict(obligation=rc["failed"][0] + " (float64 run)", inputs=inputs,
                                                  observed="; ".join(rc["detail"][:3]), cfg=cfg))
                else:
                    out["witness_float_divergence"] = out.get("witness_float_divergence", 0) + 1
            elif rc["failed"] and not env.known_hits:
                out["errors"].append(f"witness replay failed {rc['detail'][:3]} though all obligations were proved: {inputs}")
            else:
                bad = None
                if len(rc["observed"]) != len(env.observed):
                    bad = f"{len(rc['observed'])} observations vs {len(env.observed)}"
                else:
                    for (n1, v1), (n2, v2) in zip(env.observed, rc["observed"]):
                        s1, f1 = flatten(v1)
                        s2, f2 = flatten(v2)
                        if n1 != n2 or s1 != s2:
                            bad = f"observation {n1}/{n2} shape differs"
                            break
                        for x, y in zip(f1, f2):
                            if isinstance(x, SV):
                                try:
                                    x = core.model_value(m, x)
                                except ValueError as e:
                                    bad = f"observation {n1}: model does not evaluate the symbolic value ({str(e)[:200]})"
                                    break
                            cx, cy = core._const(x), core._const(y)
                            if cfg.get("floats") and cx is not None and cy is not None:
                                if abs(cx - cy) <= Fraction(1, 10 ** 6) * max(1, abs(cy)):
                                    continue
                            if (cx is None or cy is None) and x != y or (cx is not None and cx != cy):
                                bad = f"observation {n1}: symbolic {str(x)[:80]} vs concrete {str(y)[:80]}"
                                break
                        if bad:
                            break
                if bad and cfg.get("floats"):
                    # the replay ran in float64 while the path is over the reals: next to a decision boundary the two may
                    # legitimately take different branches; counted, not failed
                    out["witness_float_divergence"] = out.get("witness_float_divergence", 0) + 1
                elif bad:
                    out["errors"].append(f"witness mismatch: {bad} for {inputs}")
                else:
                    out["witness_ok"] += 1
        elif r != "sat":
            out["witness_skipped"] += 1

    try:
        npaths, ndec = explore(body, max_paths=max_paths or getattr(prop, "MAX_PATHS", 5000), on_path=on_path,
                               timeout_ms=getattr(prop, "FEAS_TIMEOUT_MS", 5000))
        out["decisions"] = ndec
    except Inconclusive as e:
        out["errors"].append(f"inconclusive: {e}")
    except (PathAbort, Concretised) as e:
        out["errors"].append(f"{type(e).__name__} outside a path: {e}")
    out["stats"] = dict(core.STATS)
    out["functions"] = sorted(_profile_funcs)
    out["wall"] = time.time() - t0
    return out


# -- worker pool ---------------------------------------------------------------------------------
def _worker(prop_mod, cfg, known, conn):
    try:
        prop = importlib.import_module(prop_mod)
        res = run_config(prop, cfg, known)
        conn.send(res)
    except BaseException as e:  # noqa
        conn.send(dict(cfg=cfg, errors=[f"worker crashed: {type(e).__name__}: {e}\n{traceback.format_exc(limit=10)}"],
                       violations=[], known=[], paths=0, decisions=0, obligations=0, discharged=0, unknown=0,
                       witness_ok=0, witness_skipped=0, samples=[], stats={}, functions=[], wall=0, aborted=0,
                       path_exc=0, infeasible_end=0))
    finally:
        conn.close()


def run_pool(prop_mod, cfgs, known, jobs, cfg_timeout_s, progress=None):
    """each configuration in its own forked process with a wall-clock cap"""
    ctxmp = mp.get_context("fork")
    pending = list(enumerate(cfgs))[::-1]
    running = {}
    results = [None] * len(cfgs)
    while pending or running:
        while pending and len(running) < jobs:
            i, cfg = pending.pop()
            pr, pw = ctxmp.Pipe(duplex=False)
            p = ctxmp.Process(target=_worker, args=(prop_mod, cfg, known, pw), daemon=True)
            p.start()
            pw.close()
            running[i] = (p, pr, time.time(), cfg)
        done = []
        for i, (p, pr, t0, cfg) in running.items():
            if pr.poll(0):
                try:
                    results[i] = pr.recv()
                except EOFError:
                    results[i] = _dead(cfg, "worker died without a result")
                p.join(5)
                done.append(i)
            elif not p.is_alive():
                if pr.poll(0.2):  # the result may have arrived between the two tests
                    try:
                        results[i] = pr.recv()
                    except EOFError:
                        results[i] = _dead(cfg, "worker died without a result")
                else:
                    results[i] = _dead(cfg, f"worker exited with code {p.exitcode}")
                done.append(i)
            elif time.time() - t0 > cfg_timeout_s:
                p.kill()
                p.join(5)
                results[i] = _dead(cfg, f"timeout after {cfg_timeout_s}s")
                results[i]["timeout"] = True
                done.append(i)
        for i in done:
            running[i][1].close()
            del running[i]
            if progress:
                progress(results[i])
        if not done:
            time.sleep(0.02)
    return results


def _dead(cfg, msg):
    return dict(cfg=cfg, errors=[msg], violations=[], known=[], paths=0, decisions=0, obligations=0, discharged=0,
                unknown=0, witness_ok=0, witness_skipped=0, samples=[], stats={}, functions=[], wall=0, aborted=0,
                path_exc=0, infeasible_end=0)


# -- top level -----------------------------------------------------------------------------------
def load_known():
    p = os.path.join(VERIF, "known_findings.json")
    if not os.path.exists(p):
        return []
    return json.load(open(p))["findings"]


def write_replay(prop_id, viol):
    os.makedirs(os.path.join(VERIF, "replays"), exist_ok=True)
    blob = json.dumps(dict(property=prop_id, cfg=viol["cfg"], inputs=viol["inputs"],
                           obligation=viol["obligation"], observed=viol["observed"]), indent=1, sort_keys=True)
    h = hashlib.sha1(blob.encode()).hexdigest()[:10]
    path = os.path.join(VERIF, "replays", f"{prop_id}-{h}.json")
    with open(path, "w") as f:
        f.write(blob)
    return path


def main_check(prop_mod, tier, seed, jobs, only=None, verbose=False):
    prop = importlib.import_module(prop_mod)
    t0 = time.time()
    known = load_known()
    cfgs = prop.configs(tier, seed)
    if only:
        cfgs = [c for c in cfgs if re.search(only, c["name"])]
    cfg_timeout = getattr(prop, "CFG_TIMEOUT_S", {"quick": 240, "thorough": 900})[tier]

    def progress(r):
        if verbose:
            print(f"  [{r['cfg'].get('name')}] paths={r['paths']} obl={r['discharged']}/{r['obligations']} "
                  f"viol={len(r['violations'])} known={len(r['known'])} err={len(r['errors'])} {r['wall']:.1f}s",
                  flush=True)

    results = run_pool(prop_mod, cfgs, known, jobs, cfg_timeout, progress)
    rc = 0
    agg = dict(paths=0, decisions=0, obligations=0, discharged=0, unknown=0, witness_ok=0, witness_skipped=0,
               aborted=0, path_exc=0, witness_float_divergence=0)
    stats = {}
    funcs = set()
    samples = []
    violations = []
    known_seen = {}
    errors = []
    for r in results:
        for k in agg:
            agg[k] += r.get(k, 0)
        for k, v in r.get("stats", {}).items():
            stats[k] = stats.get(k, 0) + v
        funcs.update(r.get("functions", []))
        if r.get("samples") and len(samples) < 6:
            samples.append(dict(config=r["cfg"], **r["samples"][0]))
        violations.extend(r["violations"])
        for kid, name, inp in r["known"]:
            known_seen.setdefault(kid, (name, inp, r["cfg"].get("name")))
        for e in r["errors"]:
            errors.append(f"[{r['cfg'].get('name')}] {e}")
    # known findings must still reproduce through their committed witness
    for kf in known:
        if kf["property"] != prop.ID or kf.get("status", "open") != "open":
            continue
        w = kf.get("witness")
        still = None
        if w:
            wprop = importlib.import_module(w.get("module", prop_mod))
            rcx = run_concrete(wprop, w["cfg"], w["inputs"], known=())
            still = rcx["outcome"] == "exc" or bool(rcx["failed"])
        if still or (still is None and kf["id"] in known_seen):
            print(f"KNOWN-FINDING: property={prop.ID} {kf['id']}: {kf['text']}")
        elif kf["id"] in known_seen:
            print(f"KNOWN-FINDING: property={prop.ID} {kf['id']}: {kf['text']}")
    seen = set()
    for v in violations:
        key = (v["obligation"].split("[")[0], v["cfg"].get("name"))
        if key in seen:
            continue
        seen.add(key)
        path = write_replay(prop.ID, v)
        print(f"VIOLATION property={prop.ID} replay={path}")
        print(f"  config={v['cfg'].get('name')} obligation={v['obligation']} inputs={v['inputs']} observed={v['observed'][:300]}")
        rc = 1
    if errors:
        for e in errors[:20]:
            print(f"INCONCLUSIVE property={prop.ID} {e[:1500]}")
        if rc == 0:
            rc = 2
    wall = time.time() - t0
    meta = getattr(prop, "META", {})
    ev = dict(
        property_id=prop.ID, tier=tier, seed=seed, level="model_checking",
        coverage=dict(
            states=agg["paths"], transitions=agg["decisions"],
            traces_validated_against_impl=agg["witness_ok"],
            evaluations=agg["obligations"],
            distinct_nontrivial=sum(1 for r in results if r.get("discharged", 0) > 0 and not r.get("errors")),
            rule="states = completed symbolic paths, transitions = branch decisions taken by the code under analysis on symbolic "
                 "conditions; evaluations = obligations sent to z3 (normaliser / nlsat / LRA); distinct_nontrivial = distinct "
                 "configurations (structural cases) in which at least one obligation was proved and nothing was left undecided",
            samples=samples or [dict(note="no completed path")],
            configurations=len(cfgs),
            configurations_timed_out=sum(1 for r in results if r.get("timeout")),
            paths_aborted_by_assumption=agg["aborted"],
            paths_ending_in_library_exception=agg["path_exc"],
            obligations=agg["obligations"], discharged=agg["discharged"], undecided=agg["unknown"],
            witness_replays_skipped=agg["witness_skipped"],
            witness_replays_diverging_in_float64=agg["witness_float_divergence"],
            solver=dict(z3=z3.get_version_string(), **{k: (round(v, 3) if isinstance(v, float) else v) for k, v in stats.items()}),
            functions_encoded=sorted(funcs),
            bounds=meta.get("bounds", {}).get(tier, meta.get("bounds", "")),
            outside_the_claim=meta.get("outside", []),
            known_findings_hit=sorted(known_seen),
            harness_errors=len(errors),
            exhaustive=False,
        ),
        assumptions=meta.get("assumptions", []),
        wall_s=round(wall, 2),
        violations=len(seen),
    )
    if ev["coverage"]["transitions"] == 0:
        # no branch of the code depended on a symbolic value (concrete structure, symbolic data only): the
        # model-checking keys do not apply; the generic counts above carry the coverage
        ev["coverage"]["branch_decisions_on_symbolic_values"] = ev["coverage"].pop("transitions")
    if not os.environ.get("SYMX_NO_EVIDENCE"):  # (set by the seeded-change tools: evidence is only written for /repo as it is)
        os.makedirs(os.path.join(VERIF, "evidence"), exist_ok=True)
        with open(os.path.join(VERIF, "evidence", f"{prop.ID}.json"), "w") as f:
            json.dump(ev, f, indent=1, default=str)
    print(f"{prop.ID} {tier}: {len(cfgs)} configurations, {agg['paths']} paths, {agg['discharged']}/{agg['obligations']} "
          f"obligations proved, {agg['witness_ok']} witness replays, {len(seen)} violations, "
          f"{len(known_seen)} known findings, {len(errors)} inconclusive, {wall:.1f}s")
    return rc


def main_replay(prop_mod, path):
    prop = importlib.import_module(prop_mod)
    blob = json.load(open(path))
    r = run_concrete(prop, blob["cfg"], blob["inputs"])
    if r["outcome"] == "exc" or r["failed"]:
        what = r["exc"] if r["outcome"] == "exc" else "; ".join(r["detail"][:5])
        print(f"VIOLATION property={prop.ID} replay={path}")
        print(f"  reproduced on the real code with Fractions: {what}")
        return 1
    print(f"replay {path}: does not (any longer) reproduce: outcome={r['outcome']}")
    return 0
