"""C12  fit_points / fit_function solve the discrete least-squares problem exactly.

Mode K: concrete Fraction knot vectors, optional concrete weights, concrete node sets; the data vector
(and the control points of the curve being sampled) are symbolic."""
from __future__ import annotations

from fractions import Fraction

import numpy as np

from ..ref import KV, basis_row, curve_value, divnz
from .. import fam, kmode
from .c01 import make_points
from .c08 import conc_weights
from .c11 import nullspace, matvec

ID = "C12"
CFG_TIMEOUT_S = {"quick": 400, "thorough": 1800}
F = Fraction

META = dict(
    bounds=dict(
        quick="every pattern of degree 0..3 with <=2 interior knots (sampled) on non-uniform rational values; polynomial and rational "
              "(concrete weights); node sets: npts unisolvent nodes, npts+2 (distinct, and with two nodes repeated) and 2*npts nodes, the documented default nodes; "
              "scalar and 2-D data",
        thorough="all patterns of degree 0..3 (<=2 interior knots) and degree<=2 with 3, two value assignments",
    ),
    assumptions=["Fraction knots and nodes, exact arithmetic", "rational: concrete positive weights",
                 "explicit node sets are checked (by exact rank computation) to be unisolvent before interpolation is demanded"],
    outside=["symbolic nodes / knots", "float data (C16)", "fit_function with explicit nodes (NotImplementedError in the library)"],
)


def configs(tier, seed):
    cfgs = []
    famy = fam.pattern_family(range(0, 4), 2, seed=seed)
    if tier == "quick":
        famy = [c for i, c in enumerate(famy) if len(c[1]) <= 3 or (i + seed) % 3 == 0]
    else:
        famy += [c for c in fam.pattern_family(range(0, 3), 3, seed=seed) if len(c[1]) == 5]
    for i, (p, pat) in enumerate(famy):
        for rep in range(1 if tier == "quick" else 2):
            vals = fam.concrete_values(len(pat), seed + rep, i)
            base = dict(p=p, mults=pat, vals=[str(v) for v in vals])
            tag = f"p={p} mults={pat} vals={base['vals']}"
            for rat in (False, True):
                if rat and p == 0:
                    continue
                r = " rat" if rat else ""
                cfgs.append(dict(name=f"points {tag}{r} n=npts", kind="points", extra=0, rat=rat, dim=(i % 2) * 2 * (not rat), **base))
                cfgs.append(dict(name=f"points {tag}{r} n=npts+2", kind="points", extra=2, rat=rat, dim=0, **base))
                cfgs.append(dict(name=f"points {tag}{r} n=npts+2, two nodes given twice", kind="points", extra=2, dup=True, rat=rat, dim=0, **base))
                cfgs.append(dict(name=f"samples {tag}{r}", kind="samples", rat=rat, dim=0, **base))
                cfgs.append(dict(name=f"function {tag}{r}", kind="function", rat=rat, dim=(i % 3 == 0) * 2 * (not rat), **base))
            cfgs.append(dict(name=f"default nodes {tag}", kind="default", rat=False, dim=0, **base))
            cfgs.append(dict(name=f"default nodes, exactly npts points {tag}", kind="default", square=True, rat=False, dim=0, **base))
            if p >= 1:
                # a function outside the curve's space: least squares over the nodes the library itself samples
                cfgs.append(dict(name=f"function outside the space {tag}", kind="function_ls", rat=False, dim=0, **base))
                cfgs.append(dict(name=f"function outside the space {tag} rat", kind="function_ls", rat=True, dim=0, **base))
    # a case whose exact normal equations need integers beyond 64 bits
    cfgs.append(dict(name="samples p=1 mults=[2, 1, 1, 1, 2] vals=['1', '5/4', '2', '7/2', '4'] rat (big integers)", kind="samples",
                     rat=True, dim=0, p=1, mults=[2, 1, 1, 1, 2], vals=['1', '5/4', '2', '7/2', '4']))
    cfgs.append(dict(name="too few points", kind="few"))
    return cfgs


def colloc_row(kv, W, z):
    d = kmode.interval_of(kv, z)
    if z == kv.vals[-1]:
        d = kv.nint - 1
    row = basis_row(kv, kv.p, z, d)[: kv.n]
    if W is None:
        return [F(x) for x in row]
    den = sum(w * F(x) for w, x in zip(W, row))
    return [w * F(x) / den for w, x in zip(W, row)]


def greville_like(kv, count, salt):
    """count distinct nodes in [umin, umax]; for count == npts they are the Greville abscissae (unisolvent),
    nudged inside the interval where the degree is 0"""
    lo, hi = kv.vals[0], kv.vals[-1]
    p = kv.p
    if p >= 1:
        g = [sum(kv.U[i + 1: i + p + 1], F(0)) / p for i in range(kv.n)]
    else:
        g = [(kv.U[i] + kv.U[i + 1]) / 2 for i in range(kv.n)]
    g = sorted(set(g))
    k = 0
    while len(g) < count:
        k += 1
        cand = lo + (hi - lo) * F(2 * ((k * 7 + salt) % 97) + 1, 197)
        if cand not in g:
            g.append(cand)
    return sorted(g)[:count] if len(g) > count else sorted(g)


def rank(rows, n):
    return n - len(nullspace(rows, n))


def body(env, cfg):
    from compmec.nurbs import Curve

    if cfg["kind"] == "few":
        c = Curve([F(0), F(0), F(0), F(1, 2), F(1), F(1), F(1)])
        Z = env.reals("Z", 3)
        for nodes in (None, (F(0), F(1, 2), F(1))):
            try:
                c.fit_points(list(Z), nodes)
            except (AssertionError, ValueError):
                env.holds("still no control points", c.ctrlpoints is None)
                continue
            env.fail("fit_points with fewer points than control points was not rejected")
        return

    p, mults = cfg["p"], cfg["mults"]
    vals = [F(v) for v in cfg["vals"]]
    kv = KV(vals, mults)
    W = conc_weights(kv.n, 11) if cfg["rat"] else None
    curve = Curve(list(kv.U))
    if W is not None:
        curve.weights = W
    dim = cfg["dim"]
    kind = cfg["kind"]

    if kind == "points":
        m = kv.n + cfg["extra"]
        nodes = greville_like(kv, m, p)
        if cfg.get("dup"):
            # a node may occur more than once, each time with its own data point: every (node, point) pair counts
            nodes = greville_like(kv, kv.n, p)
            nodes = nodes + [nodes[0], nodes[kv.n // 2]]
        # the nodes need not be given in increasing order: least squares does not depend on the order of the (node, point) pairs
        rot = (p + len(mults) + cfg["extra"]) % m
        nodes = nodes[rot:][::-1] + nodes[:rot]
        B = [colloc_row(kv, W, z) for z in nodes]
        if rank(B, kv.n) < kv.n:
            return
        Z = make_points(env, "Z", m, dim)
        curve.fit_points(list(Z), tuple(nodes))
        Q = list(curve.ctrlpoints)
        env.holds("npts control points", len(Q) == kv.n)
        env.observe("Q", Q)
        Bt = [list(col) for col in zip(*B)]
        for c, (qc, zc) in enumerate(zip(kmode.coords(Q), kmode.coords(Z))):
            resid = [a - b for a, b in zip(matvec(B, qc), zc)]
            env.eq(f"residual is orthogonal to every column of the collocation matrix (coord {c})", matvec(Bt, resid), [0] * kv.n)
            if m == kv.n:
                env.eq(f"npts unisolvent nodes: the curve interpolates every point (coord {c})", matvec(B, qc), list(zc))
        return

    if kind == "samples":
        m = kv.n + 3
        nodes = greville_like(kv, m, p + 1)
        nodes = nodes[1::2] + nodes[0::2]  # (not increasing)
        B = [colloc_row(kv, W, z) for z in nodes]
        if rank(B, kv.n) < kv.n:
            return
        P0 = env.reals("P", kv.n)
        Z = matvec(B, P0)
        curve.fit_points(list(Z), tuple(nodes))
        env.eq("samples of a curve of the same space reproduce that curve", list(curve.ctrlpoints), list(P0))
        return

    if kind == "function":
        P0 = make_points(env, "P", kv.n, dim)

        def f(u):
            d = kmode.interval_of(kv, u)
            if u == vals[-1]:
                d = kv.nint - 1
            v = curve_value(kv, P0, W, u, d)
            if W is None:
                return v
            return divnz(v[0], v[1])
        curve.fit_function(f)
        Q = list(curve.ctrlpoints)
        for c, (qc, pc) in enumerate(zip(kmode.coords(Q), kmode.coords(P0))):
            env.eq(f"fit_function reproduces a function of the curve's own space (coord {c})", list(qc), list(pc))
        return

    if kind == "function_ls":
        coef = env.reals("c", p + 2)
        seen = []

        def f(u):
            seen.append(u)
            val = 0
            for cj in reversed(coef):
                val = val * u + cj
            return val
        curve.fit_function(f)
        Q = list(curve.ctrlpoints)
        nodes = list(seen)
        env.holds("fit_function samples at least npts nodes, all inside the interval",
                  len(nodes) >= kv.n and all(vals[0] <= z <= vals[-1] for z in nodes))
        B = [colloc_row(kv, W, z) for z in nodes]
        Z = []
        for z in nodes:
            val = 0
            for cj in reversed(coef):
                val = val * z + cj
            Z.append(val)
        Bt = [list(col) for col in zip(*B)]
        resid = [a - b for a, b in zip(matvec(B, Q), Z)]
        env.eq("fit_function: the residual over the sampled nodes is orthogonal to every column of the collocation matrix",
               matvec(Bt, resid), [0] * kv.n)
        return

    if kind == "default":
        m = kv.n if cfg.get("square") else 2 * kv.n + 1
        if m < 2:
            return
        lo, hi = vals[0], vals[-1]
        nodes = [lo + (hi - lo) * F(k, m - 1) for k in range(m)]
        B = [colloc_row(kv, W, z) for z in nodes]
        if rank(B, kv.n) < kv.n:
            return
        Z = env.reals("Z", m)
        curve.fit_points(list(Z))
        Q = list(curve.ctrlpoints)
        Bt = [list(col) for col in zip(*B)]
        resid = [a - b for a, b in zip(matvec(B, Q), Z)]
        env.eq("default nodes are equally spaced over [umin, umax] including both ends: normal equations hold", matvec(Bt, resid), [0] * kv.n)
        return
    raise AssertionError(kind)
