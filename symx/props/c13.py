"""C13  Curve equality means equality as functions, independent of representation.

Mode K: concrete Fraction knot vectors (pairs), symbolic control points P, Q (so that both answers are
reachable and the 1e-9 band is explored by the solver), concrete weights.  Oracle: refinement matrices
to the common knot vector obtained from exact collocation and validated piece by piece."""
from __future__ import annotations

import copy as _copy
from fractions import Fraction

import numpy as np

from ..ref import KV, Poly, basis_polys, basis_row
from .. import fam, kmode
from .c01 import make_points
from .c08 import conc_weights
from .c11 import nullspace
from .c12 import colloc_row, greville_like, rank

ID = "C13"
CFG_TIMEOUT_S = {"quick": 400, "thorough": 1800}
MAX_PATHS = 20000
F = Fraction
TOL = F(1e-9)

META = dict(
    bounds=dict(
        quick="12 pairs of concrete vectors of degree 0..3 (same, refined, elevated, unrelated knots on one interval, different "
              "intervals), both operand orders, symbolic scalar / 2-D control points on both sides; rational cases with concrete weights",
        thorough="the 12 pairs plus ~30 seeded random pairs",
    ),
    assumptions=["Fraction knots, exact arithmetic",
                 "spec: A == B  <=>  same interval and max_i |(M_A P)_i - (M_B Q)_i|_inf <= 1e-9 on the common refinement U_A | U_B, "
                 "with M from exact collocation (validated: sum_j N^C_j M_ji == N^A_i on every interval)",
                 "rational operands: concrete positive weights"],
    outside=["symbolic knots", "3-D points"],
)

PAIRS = [
    ((1, [0, 1], [2, 2]), (1, [0, 1], [2, 2])),
    ((1, [0, 1], [2, 2]), (1, [0, F(1, 2), 1], [2, 1, 2])),
    ((1, [0, 1], [2, 2]), (2, [0, 1], [3, 3])),
    ((2, [0, F(1, 3), 1], [3, 1, 3]), (2, [0, F(2, 3), 1], [3, 1, 3])),
    ((1, [0, 1, 3], [2, 1, 2]), (2, [0, 2, 3], [3, 2, 3])),
    ((0, [0, 1, 2], [1, 1, 1]), (0, [0, 2], [1, 1])),
    ((2, [-1, 0, 2], [3, 2, 3]), (2, [-1, 0, 2], [3, 1, 3])),
    ((3, [0, 2], [4, 4]), (1, [0, 1, 2], [2, 1, 2])),
    ((1, [0, 1, 2], [2, 2, 2]), (1, [0, 1, 2], [2, 1, 2])),
    ((0, [0, 1], [1, 1]), (2, [0, 1], [3, 3])),
    ((2, [0, 1, 2, 3], [3, 1, 2, 3]), (1, [0, 3], [2, 2])),
    ((1, [0, F(1, 4), 1], [2, 1, 2]), (1, [0, F(3, 4), 1], [2, 2, 2])),
]


def configs(tier, seed):
    cfgs = []
    pairs = list(PAIRS)
    if tier == "thorough":
        import random
        rnd = random.Random(seed)
        pats = fam.pattern_family(range(0, 3), 2, seed=seed)
        while len(pairs) < len(PAIRS) + 30:
            (pa, ma), (pb, mb) = rnd.choice(pats), rnd.choice(pats)
            if (sum(ma) - pa - 1) + (sum(mb) - pb - 1) > 7:
                continue  # every control point of the refinement is a fork (2^n paths)
            pool = sorted(rnd.sample([F(x, 6) for x in range(1, 24)], 4))
            lo, hi = F(rnd.randint(-2, 0)), F(rnd.randint(4, 6))
            va = [lo] + sorted(rnd.sample(pool, len(ma) - 2)) + [hi]
            vb = [lo] + sorted(rnd.sample(pool, len(mb) - 2)) + [hi]
            pairs.append(((pa, va, ma), (pb, vb, mb)))
    for k, ((pa, va, ma), (pb, vb, mb)) in enumerate(pairs):
        base = dict(pa=pa, va=[str(F(v)) for v in va], ma=ma, pb=pb, vb=[str(F(v)) for v in vb], mb=mb)
        na, nb = sum(ma) - pa - 1, sum(mb) - pb - 1
        dim = 2 if (k + seed) % 3 == 0 and na + nb <= 4 else 0
        cfgs.append(dict(name=f"pair{k} A==B dim={dim}", kind="pair", dim=dim, **base))
        cfgs.append(dict(name=f"pair{k} refined copies", kind="copies", dim=0, **base))
    for k in range(3):
        cfgs.append(dict(name=f"rational {k}", kind="rational", k=k))
    cfgs.append(dict(name="rational, vector-valued control points", kind="rational2d"))
    # float data (numpy float arrays as control points): the symbolic run covers the real-number semantics, the float64 replays
    # of every path run the library's float branches
    for k, ((pa, va, ma), (pb, vb, mb)) in enumerate(pairs[:4]):
        cfgs.append(dict(name=f"pair{k} refined copies, 2-D float points", kind="copies2d", dim=2, floats=True,
                         pa=pa, va=[str(F(v)) for v in va], ma=ma, pb=pb, vb=[str(F(v)) for v in vb], mb=mb))
    cfgs.append(dict(name="different intervals / non-curves", kind="misc"))
    return cfgs


def solve_square(A, B):
    """A^-1 B for Fraction matrices (Gauss-Jordan)"""
    n = len(A)
    M = [list(map(F, ra)) + list(map(F, rb)) for ra, rb in zip(A, B)]
    for c in range(n):
        k = next(i for i in range(c, n) if M[i][c] != 0)
        M[c], M[k] = M[k], M[c]
        M[c] = [x / M[c][c] for x in M[c]]
        for i in range(n):
            if i != c and M[i][c] != 0:
                M[i] = [x - M[i][c] * y for x, y in zip(M[i], M[c])]
    return [row[n:] for row in M]


def union_kv(kva: KV, kvb: KV):
    """coarsest vector containing both spline spaces (closed form, see C17)"""
    r = max(kva.p, kvb.p)
    vals = sorted(set(kva.vals) | set(kvb.vals))
    mults = []
    for v in vals:
        cand = []
        for kv in (kva, kvb):
            if v in kv.vals:
                cand.append(kv.mults[kv.vals.index(v)] + r - kv.p)
        mults.append(max(cand))
    return KV(vals, mults, r)


def refine_matrix(kva: KV, kvc: KV):
    """M with N^A_i = sum_j M[j][i] N^C_j.  On every knot interval of C the r+1 basis functions of C that live
    there span the polynomials of degree <= r, so the coefficients follow from matching power coefficients
    interval by interval; the result is validated on every interval."""
    r = kvc.p
    M = [[None] * kva.n for _ in range(kvc.n)]
    for d in range(kvc.nint):
        a = kvc.vals[d]
        span = kvc.span_of(d)
        js = list(range(span - r, span + 1))
        pc = basis_polys(kvc, r, d)[: kvc.n]
        pa = basis_polys(kva, kva.p, kmode.interval_of(kva, a))[: kva.n]
        cols = [kmode.pad(pc[j].c, r + 1) for j in js]          # power coefficients of the C functions
        A = [[F(cols[k][row]) for k in range(r + 1)] for row in range(r + 1)]
        B = [[F(kmode.pad(pa[i].c, r + 1)[row]) for i in range(kva.n)] for row in range(r + 1)]
        X = solve_square(A, B)                                   # (r+1) x nA
        for k, j in enumerate(js):
            for i in range(kva.n):
                if M[j][i] is None:
                    M[j][i] = X[k][i]
                else:
                    assert M[j][i] == X[k][i], "A's space is not contained in C's space"
    M = [[F(0) if x is None else x for x in row] for row in M]
    for d in range(kvc.nint):
        a = kvc.vals[d]
        pc = basis_polys(kvc, kvc.p, d)[: kvc.n]
        pa = basis_polys(kva, kva.p, kmode.interval_of(kva, a))[: kva.n]
        for i in range(kva.n):
            acc = Poly([0])
            for j in range(kvc.n):
                if M[j][i] != 0:
                    acc = acc + pc[j] * M[j][i]
            assert (acc - pa[i]).iszero(), "refinement oracle is wrong"
    return M


def refined(M, P):
    out = []
    for row in M:
        acc = 0
        for a, b in zip(row, P):
            if a != 0:
                acc = acc + b * a
        out.append(acc)
    return out


def spec_equal(env, kva, P, kvb, Q):
    """decides (forking like the library does) whether the two polynomial curves agree within 1e-9 on the common refinement"""
    if kva.vals[0] != kvb.vals[0] or kva.vals[-1] != kvb.vals[-1]:
        return False
    kvc = union_kv(kva, kvb)
    MA, MB = refine_matrix(kva, kvc), refine_matrix(kvb, kvc)
    same = True
    for pc, qc in zip(kmode.coords(P), kmode.coords(Q)):
        for x, y in zip(refined(MA, pc), refined(MB, qc)):
            d = x - y
            if not bool((d <= TOL) & (-d <= TOL)):
                same = False
    return same


def body(env, cfg):
    from compmec.nurbs import Curve

    kind = cfg["kind"]
    if kind == "misc":
        P, Q = env.reals("P", 2), env.reals("Q", 2)
        A = Curve([F(0), F(0), F(1), F(1)], P)
        for other in (Curve([F(0), F(0), F(2), F(2)], P), Curve([F(-1), F(-1), F(1), F(1)], P)):
            env.holds("curves on different intervals are not equal", (A == other) is False and (A != other) is True)
        for obj in (1, "curve", None, [1, 2], (0, 0, 1, 1)):
            env.holds(f"comparison with the non-curve {obj!r} gives False", (A == obj) is False and (A != obj) is True)
        empty = Curve([F(0), F(0), F(1), F(1)])
        env.holds("a curve without control points differs from one with", (A == empty) is False)
        return

    if kind == "rational":
        k = cfg["k"]
        kv = KV([F(0), F(1, 3), F(2)], [3, 1, 3]) if k != 1 else KV([F(0), F(1)], [2, 2])
        P = env.reals("P", kv.n)
        A = Curve(list(kv.U), P)
        B = Curve(list(kv.U), P, [F(2)] * kv.n)  # constant weights: the same function
        env.holds("rational (constant weights) and polynomial description of the same function are equal", bool(A == B) and bool(B == A))
        W1, W2 = conc_weights(kv.n, 1), conc_weights(kv.n, 4)
        C1, C2 = Curve(list(kv.U), P, W1), Curve(list(kv.U), P, W2)
        s1, s2 = kmode.snapshot(C1), kmode.snapshot(C2)
        env.assume((P[0] - P[1] >= 1) | (P[1] - P[0] >= 1))
        env.holds("equal control points with different weights (a different function) do not compare equal", not bool(C1 == C2) and not bool(C2 == C1))
        env.holds("a rational curve equals its copy", bool(C1 == _copy.deepcopy(C1)) and not bool(C1 != _copy.deepcopy(C1)))
        # polynomial on one side, rational on the other, in both orders
        env.holds("polynomial vs rational with the same control points and non-constant weights: different functions, both orders",
                  not bool(A == C1) and not bool(C1 == A) and bool(A != C1) and bool(C1 != A))
        s0 = P[0]
        L = Curve([F(0), F(0), F(1), F(1)], [s0, 2 * s0])                                   # s0 * (1 + u)
        R = Curve([F(0)] * 3 + [F(1)] * 3, [s0, F(4, 3) * s0, 2 * s0], [F(1), F(3, 2), F(2)])   # s0 * (1+u)^2 / (1+u)
        env.holds("a polynomial and a genuinely rational description of the same function are equal, both orders",
                  bool(L == R) and bool(R == L) and not bool(L != R) and not bool(R != L))
        # other descriptions of the rational function C1: all weights scaled, a knot inserted, the degree raised
        C3 = Curve(list(kv.U), P, [3 * w for w in W1])
        env.holds("scaling all weights by a constant does not change the function: equal, both orders",
                  bool(C1 == C3) and bool(C3 == C1) and not bool(C1 != C3))
        C4 = _copy.deepcopy(C1)
        C4.knot_insert([F(1, 2)])
        env.holds("a rational curve equals its refined copy, both orders", bool(C1 == C4) and bool(C4 == C1) and not bool(C4 != C1))
        C5 = _copy.deepcopy(C1)
        C5.degree_increase(1)
        env.holds("a rational curve equals its elevated copy, both orders", bool(C1 == C5) and bool(C5 == C1) and not bool(C5 != C1))
        env.holds("refined / elevated copies of a different rational function stay different", not bool(C4 == C2) and not bool(C2 == C5))
        kmode.unchanged(env, C1, s1, "== operand")
        kmode.unchanged(env, C2, s2, "== operand")
        return

    if kind == "rational2d":
        kv = KV([F(0), F(1, 3), F(2)], [3, 1, 3])
        P = make_points(env, "P", kv.n, 2)
        W1, W2 = conc_weights(kv.n, 1), conc_weights(kv.n, 4)
        A = Curve(list(kv.U), P, W1)
        B = _copy.deepcopy(A)
        env.holds("a rational curve with vector control points equals itself and its copy", bool(A == A) and bool(A == B) and bool(B == A)
                  and not bool(A != B))
        B.knot_insert([F(1, 2)])
        env.holds("... and its refined copy, both orders", bool(A == B) and bool(B == A) and not bool(A != B))
        C = Curve(list(kv.U), P, W2)
        env.assume((P[0][1] - P[1][1] >= 1) | (P[1][1] - P[0][1] >= 1))
        env.holds("other weights (a different function): not equal, both orders", not bool(A == C) and not bool(C == A) and bool(A != C))
        return

    if kind == "copies2d":
        # numpy float arrays as control points; B is A refined, then moved in ONE coordinate by eps (of either sign)
        conv = float if env.floats else F
        va = [conv(F(v)) for v in cfg["va"]]
        n = sum(cfg["ma"]) - cfg["pa"] - 1
        U = [v for v, m in zip(va, cfg["ma"]) for _ in range(m)]
        Px, Py = env.reals("X", n), env.reals("Y", n)
        for x in list(Px) + list(Py):
            env.assume((x <= 4) & (x >= -4))
        pts = [np.array([x, y], dtype=(float if env.floats else object)) for x, y in zip(Px, Py)]
        A = Curve(U, pts)
        B = _copy.deepcopy(A)
        mid = (2 * va[0] + va[-1]) / 3
        if mid in va:
            mid = (va[0] + va[-1]) / 2
        B.knot_insert([mid])
        env.holds("a refined copy compares equal, in both orders", bool(A == B) and bool(B == A) and not bool(A != B))
        eps = env.real("eps", nice=(-1, 1))
        band = F(1, 10 ** 6)
        if not env.floats:  # (the float image of a boundary witness may fall a last bit outside: only the symbolic run assumes it)
            env.assume((eps >= band) | (eps <= -band) | (eps == 0))   # clear of the 1e-9 threshold: float rounding is not the subject
        env.assume((eps <= 1) & (eps >= -1))
        bp = [np.array(q, dtype=(float if env.floats else object)) for q in B.ctrlpoints]
        j = len(bp) // 2
        bp[j] = bp[j] + np.array([0, eps], dtype=(float if env.floats else object))
        Bp = Curve(tuple(B.knotvector), bp)
        r1, r2 = Bp == A, A == Bp
        env.holds("moved in one coordinate: symmetric answer", bool(r1) == bool(r2))
        env.holds("moved in one coordinate by eps: equal exactly when eps == 0", bool(r1) == bool(eps == 0) and bool(r2) == bool(eps == 0))
        env.holds("!= is the negation", bool(Bp != A) == (not bool(r1)))
        return

    va, vb = [F(v) for v in cfg["va"]], [F(v) for v in cfg["vb"]]
    kva, kvb = KV(va, cfg["ma"]), KV(vb, cfg["mb"])
    if kind == "pair":
        P = make_points(env, "P", kva.n, cfg["dim"])
        Q = make_points(env, "Q", kvb.n, cfg["dim"])
        A, B = Curve(list(kva.U), P), Curve(list(kvb.U), Q)
        sa, sb = kmode.snapshot(A), kmode.snapshot(B)
        ab, ba = A == B, B == A
        nab, nba = A != B, B != A
        kmode.unchanged(env, A, sa, "== left operand")
        kmode.unchanged(env, B, sb, "== right operand")
        env.holds("== returns a bool", isinstance(ab, (bool, np.bool_)) and isinstance(ba, (bool, np.bool_)))
        env.holds("symmetric: (A == B) is (B == A)", bool(ab) == bool(ba))
        env.holds("A != B is the negation of A == B", bool(nab) == (not bool(ab)) and bool(nba) == (not bool(ba)))
        spec = spec_equal(env, kva, P, kvb, Q)
        env.holds("A == B exactly when the curves agree (1e-9) on the common refinement", bool(ab) == spec)
        env.holds("reflexive", bool(A == A) and bool(B == B))
        return

    if kind == "copies":
        # B := A refined (real knot_insert / degree_increase) and perturbed at one control point by a symbolic eps
        P = env.reals("P", kva.n)
        A = Curve(list(kva.U), P)
        B = _copy.deepcopy(A)
        newk = [v for v in vb[1:-1] if v not in va] or [(va[0] + 2 * va[-1]) / 3]
        B.knot_insert(newk)
        if cfg["pb"] > cfg["pa"]:
            B.degree_increase(cfg["pb"] - cfg["pa"])
        env.holds("a refined / elevated copy compares equal, in both orders", bool(A == B) and bool(B == A) and not bool(A != B))
        eps = env.real("eps", nice=(-1, 1))
        pts = list(B.ctrlpoints)
        j = len(pts) // 2
        pts[j] = pts[j] + eps
        Bp = Curve(tuple(B.knotvector), pts)
        r1, r2 = Bp == A, A == Bp
        env.holds("perturbed refined copy: symmetric answer", bool(r1) == bool(r2))
        env.holds("perturbed refined copy: equal exactly when |eps| <= 1e-9", bool(r1) == bool((eps <= TOL) & (-eps <= TOL)))
        A2 = _copy.deepcopy(A)
        A2.knot_insert([(2 * va[0] + va[-1]) / 3] if (2 * va[0] + va[-1]) / 3 not in va else [(va[0] + va[-1]) / 2])
        # a further refinement replaces control points by convex combinations: differences can only shrink, so an
        # equal pair stays equal; a clearly different pair (|eps| >= 1) stays different.  Inside the band the answer
        # of a control-point tolerance legitimately depends on the common knot vector.
        e1, e2 = A2 == Bp, Bp == A2
        env.holds("refining an operand of an equal pair keeps it equal", (not bool(r2)) or (bool(e1) and bool(e2)))
        env.holds("refining an operand: symmetric answer", bool(e1) == bool(e2))
        big = bool((eps >= 1) | (eps <= -1))
        env.holds("refining an operand of a clearly different pair keeps it different", (not big) or (not bool(e1) and not bool(e2)))
        return
    raise AssertionError(kind)
