"""C16  Results do not depend on the number representation.

exact   : Fraction knots + symbolic control points: no output of the listed operations has been touched by a float
          (taint bit of the symbolic number; in the concrete replay: every output is an int/Fraction);
floats  : the same vector given as Python floats / numpy float64 (the library then takes its float branches:
          Chebyshev rules, LAPACK) returns control points within 1e-9 of the exact run for all |P_i| <= 1;
big     : knot vectors with ~40-digit numerators and denominators stay exact (oracle identity);
minimal : control points that support only point+point and number*point go through evaluation, insertion,
          elevation and splitting (modes S and K) and give the coordinate-wise result."""
from __future__ import annotations

from fractions import Fraction

import numpy as np

from ..core import SV
from ..ref import KV, curve_value
from .. import fam, kmode
from .c01 import make_points
from .c03 import GAP
from .c04 import same_function
from .c08 import conc_weights

ID = "C16"
CFG_TIMEOUT_S = {"quick": 500, "thorough": 1800}
F = Fraction

META = dict(
    technique='taint-tracking symbolic execution (no-float claim), paired float/exact runs compared by z3 linear arithmetic for all |P_i|<=1, exact big-rational identities, minimal point type run symbolically',
    bounds=dict(
        quick="6 knot vectors of degree 1..3; operations: eval, basis functions, knot_insert, knot_remove, degree_increase, degree_decrease, "
              "split, join, + - *, fit_curve, fit_points, Integrate.scalar; float variants float and numpy.float64; big-rational variants; "
              "minimal point type in modes S (degree 1..3, <=1 interior knot) and K",
        thorough="12 knot vectors, all operations in all variants",
    ),
    assumptions=["exact: 'no float introduced' is decided on the symbolic run by a taint bit that every arithmetic operation with a Python/"
                 "numpy float sets, and on the concrete replay by the types of the outputs",
                 "floats: rounding inside the library's float computations is real (float64 matrices are produced by the real code); the final "
                 "products with the symbolic control points are exact reals; |P_i| <= 1"],
    outside=["bit-level agreement of long float computations", "float control points (only float knots / parameters)", "3-D minimal points"],
)

VECS = [
    (1, [0.0, 0.25, 1.0], [2, 1, 2]),
    (2, [0.0, 0.5, 1.0], [3, 1, 3]),
    (2, [-1.0, 0.125, 0.75, 2.0], [3, 2, 1, 3]),
    (3, [0.0, 1.0], [4, 4]),
    (3, [0.0, 0.375, 1.5], [4, 2, 4]),
    (1, [0.0, 0.1, 0.7, 1.0], [2, 1, 1, 2]),
    (2, [0.0, 0.3, 1.0], [3, 2, 3]),
    (1, [0.0, 2.5], [2, 2]),
    (3, [0.0, 0.2, 0.6, 1.0], [4, 1, 1, 4]),
    (2, [-2.0, -0.5, 3.0], [3, 1, 3]),
    (1, [0.0, 0.5, 1.0], [2, 2, 2]),
    (2, [0.0, 0.25, 0.5, 1.0], [3, 1, 1, 3]),
]
OPS = ["eval", "basis", "knot_insert", "knot_remove", "degree_increase", "degree_decrease", "split", "join", "add", "mul", "fit_curve",
       "fit_points", "fit_points_square", "integrate"]


def configs(tier, seed):
    cfgs = []
    vecs = VECS[:6] if tier == "quick" else VECS
    for k, (p, vals, mults) in enumerate(vecs):
        base = dict(p=p, vals=vals, mults=mults)
        for op in OPS:
            cfgs.append(dict(name=f"exact vec{k} {op}", kind="exact", op=op, **base))
            if op in ("eval", "basis", "knot_insert", "degree_increase", "split"):
                # the exact run right after the same operation on the same numbers given as floats, in one process:
                # nothing remembered from the float run may leak into the exact one
                cfgs.append(dict(name=f"exact vec{k} {op} after the float run", kind="exact", op=op, after_float=True, **base))
            for num in ("float", "float64"):
                if tier == "quick" and (k + len(op) + (num == "float64") + seed) % 2:
                    continue
                cfgs.append(dict(name=f"{num} vec{k} {op}", kind="floats", num=num, op=op, **base))
        for op in ("knot_insert", "knot_remove", "degree_increase", "degree_decrease", "fit_curve", "mul", "fit_points"):
            if tier == "quick" and (k + len(op) + seed) % 3:
                continue
            cfgs.append(dict(name=f"big vec{k} {op}", kind="big", op=op, **base))
    # int control points and int weights (no symbolic input: plain enumeration of the representation, reported as such)
    for k, (p, vals, mults) in enumerate(vecs):
        cfgs.append(dict(name=f"int points/weights vec{k}", kind="ints", p=p, vals=vals, mults=mults))
    seen = set()
    for p in (1, 2, 3):
        for pat in ([p + 1, p + 1], [p + 1, 1, p + 1], [p + 1, p, p + 1]):
            for op in ("eval", "knot_insert", "degree_increase", "split"):
                if (p, tuple(pat), op) in seen or (op == "degree_increase" and len(pat) > 2):
                    continue  # (elevating a multi-span curve inverts a matrix: concrete knots only, see minimal K)
                seen.add((p, tuple(pat), op))
                cfgs.append(dict(name=f"minimal S p={p} mults={pat} {op}", kind="minimalS", p=p, mults=pat, op=op))
                if p <= 2:
                    cfgs.append(dict(name=f"minimal S p={p} mults={pat} {op} rat", kind="minimalS", p=p, mults=pat, op=op, rat=True))
    for k, (p, vals, mults) in enumerate(vecs[:4]):
        for op in ("eval", "knot_insert", "degree_increase", "split"):
            cfgs.append(dict(name=f"minimal K vec{k} {op}", kind="minimalK", p=p, vals=vals, mults=mults, op=op))
            cfgs.append(dict(name=f"minimal K vec{k} {op} rat", kind="minimalK", p=p, vals=vals, mults=mults, op=op, rat=True))
    return cfgs


class MinimalPoint:
    """a user-defined point: only point + point and number * point"""

    def __init__(self, x, y):
        self.x, self.y = x, y

    def __add__(self, o):
        if not isinstance(o, MinimalPoint):
            return NotImplemented
        return MinimalPoint(self.x + o.x, self.y + o.y)

    def __rmul__(self, k):
        if isinstance(k, (MinimalPoint, np.ndarray, list, tuple)):
            return NotImplemented
        return MinimalPoint(k * self.x, k * self.y)

    def __repr__(self):
        return f"MinimalPoint({self.x}, {self.y})"


def outputs_of(op, Curve, Function, knots, P, extra):
    """runs one operation on the vector `knots` (any number type) and returns the list of numbers it produced"""
    from compmec.nurbs.calculus import Integrate
    lo, hi = knots[0], knots[-1]
    mid = extra["mid"]
    c = Curve(list(knots), list(P))
    if op == "eval":
        return list(c([lo, mid, extra["u2"], hi]))
    if op == "basis":
        f = Function(list(knots))
        return [x for row in f([lo, mid, extra["u2"], hi]) for x in row]
    if op == "knot_insert":
        c.knot_insert([mid, extra["u2"]])
        return list(c.ctrlpoints)
    if op == "knot_remove":
        c.knot_insert([mid])
        c.knot_remove([mid])
        return list(c.ctrlpoints)
    if op == "degree_increase":
        c.degree_increase(1)
        return list(c.ctrlpoints)
    if op == "degree_decrease":
        c.degree_increase(1)
        c.degree_decrease(1)
        return list(c.ctrlpoints)
    if op == "split":
        out = []
        for piece in c.split([mid]):
            out += list(piece.ctrlpoints)
        return out
    if op == "join":
        a, b = c.split([mid])
        j = a | b
        return list(j.ctrlpoints)
    if op == "add":
        d = Curve([lo] * 2 + [hi] * 2, extra["Q"])
        out = list((c + d).ctrlpoints) + list((c - d).ctrlpoints)
        three = type(lo)(3)
        for r in (c * 3, 3 * c, c / 3, c / three, c + 2, 2 - c, -c, c * three):   # scalars given as Python ints and in the knots' own class
            out += list(r.ctrlpoints)
        return out
    if op == "mul":
        d = Curve([lo] * 2 + [hi] * 2, extra["Q"])
        return list((c * d).ctrlpoints)
    if op == "fit_curve":
        t = Curve([lo] * 2 + [mid] + [hi] * 2)
        err = t.fit_curve(c)
        return list(t.ctrlpoints) + [err]
    if op == "fit_points":
        n = len(P)
        t = Curve(list(knots))
        t.fit_points(list(extra["Z"]))
        return list(t.ctrlpoints)
    if op == "fit_points_square":
        n = len(P)
        t = Curve(list(knots))
        nodes = [lo + (hi - lo) * type(lo)(k) / (n - 1) for k in range(n)] if n > 1 else [lo]
        t.fit_points(list(extra["Z"])[:n])          # as many points as control points: a square system
        return list(t.ctrlpoints)
    if op == "integrate":
        return [Integrate.scalar(c)]
    raise AssertionError(op)


def _ints(env, cfg):
    """Fraction knots with *int* control points and weights: every result must be an int or a Fraction and equal to the
    result obtained with the same numbers given as Fractions"""
    from compmec.nurbs import Curve
    p, mults = cfg["p"], cfg["mults"]
    qvals = [F(float(v)) for v in cfg["vals"]]
    kv = KV(qvals, mults)
    n = kv.n
    ipts = [((3 * i * i + 2 * i) % 7) - 3 for i in range(n)]
    iw = [1 + ((5 * i + 2) % 4) for i in range(n)]
    mid = next(F(x) for x in (0.4375, 0.3125, 0.8125, 0.15625) if F(x) not in qvals and qvals[0] < x < qvals[-1])
    bad = []
    for rational in (False, True):
        for op in ("eval", "knot_insert1", "knot_insert2", "degree_increase", "split", "add"):
            outs = []
            for conv in (int, F):
                c = Curve(list(kv.U), [conv(x) for x in ipts], [conv(w) for w in iw] if rational else None)
                if op == "eval":
                    res = list(c([qvals[0], mid, qvals[-1]]))
                elif op == "knot_insert1":
                    c.knot_insert([mid])
                    res = list(c.ctrlpoints) + list(c.weights or [])
                elif op == "knot_insert2":
                    c.knot_insert([mid, mid] if p >= 2 else [mid, (mid + qvals[-1]) / 2])
                    res = list(c.ctrlpoints) + list(c.weights or [])
                elif op == "degree_increase":
                    c.degree_increase(1)
                    res = list(c.ctrlpoints) + list(c.weights or [])
                elif op == "split":
                    res = []
                    for piece in c.split([mid]):
                        res += list(piece.ctrlpoints) + list(piece.weights or [])
                else:
                    d = Curve(list(kv.U), [conv(2 * x + 1) for x in ipts])
                    e = c + d
                    res = list(e.ctrlpoints) + list(e.weights or [])
                outs.append(res)
            ri, rf = outs
            if any(isinstance(x, (float, np.floating)) for x in ri):
                bad.append(f"{op}{' rational' if rational else ''}: float results from int data")
            elif len(ri) != len(rf) or any(F(a) != F(b) for a, b in zip(ri, rf)):
                bad.append(f"{op}{' rational' if rational else ''}: int data and Fraction data disagree")
    env.holds("int control points / weights give exact results: " + "; ".join(bad[:4]), not bad)


def body(env, cfg):
    from compmec.nurbs import Curve, Function

    kind = cfg["kind"]
    if kind == "ints":
        _ints(env, cfg)
        return
    if kind in ("exact", "floats", "big"):
        p, mults = cfg["p"], cfg["mults"]
        fvals = [float(v) for v in cfg["vals"]]
        qvals = [F(v) for v in fvals]                      # the very same real numbers as Fractions
        if kind == "big":
            big = F(10 ** 40 + 7, 10 ** 39 + 3)
            qvals = [v * big + F(1, 10 ** 38 + 9) for v in qvals]
        kvq = KV(qvals, mults)
        n = kvq.n
        if kind == "floats" and cfg["op"] in ("knot_remove", "degree_decrease", "join"):
            # these test a tolerance on a quadratic form (with float noise in the float run): two symbolic control points
            from .c07 import _mixed_points
            P = _mixed_points(env, "P", n, {0, n - 1}, p)
        else:
            P = env.reals("P", n)
        Q = env.reals("Q", 2)
        Z = env.reals("Z", 2 * n + 1)
        lo, hi = qvals[0], qvals[-1]
        # two parameters that are not knots, exactly representable as floats
        midf = next(x for x in (0.4375, 0.3125, 0.8125, 0.15625) if F(x) not in [F(v) for v in fvals] and fvals[0] < x < fvals[-1])
        u2f = next(x for x in (0.8125, 0.5625, 0.21875, 0.90625) if F(x) not in [F(v) for v in fvals] and fvals[0] < x < fvals[-1] and x != midf)
        if kind == "big":
            exq = dict(mid=F(midf) * big + F(1, 10 ** 38 + 9), u2=F(u2f) * big + F(1, 10 ** 38 + 9), Q=Q, Z=Z)
        else:
            exq = dict(mid=F(midf), u2=F(u2f), Q=Q, Z=Z)
        if cfg.get("after_float"):
            knotsf = [fvals[i] for i, m in enumerate(mults) for _ in range(m)]
            outputs_of(cfg["op"], Curve, Function, knotsf, P, dict(mid=midf, u2=u2f, Q=Q, Z=Z))
            outputs_of(cfg["op"], Curve, Function, [np.float64(x) for x in knotsf], P, dict(mid=np.float64(midf), u2=np.float64(u2f), Q=Q, Z=Z))
        exact = outputs_of(cfg["op"], Curve, Function, kvq.U, P, exq)
        if kind == "exact":
            if env.sym:
                tainted = [k for k, x in enumerate(exact) if isinstance(x, SV) and x.t]
                env.holds(f"{cfg['op']}: no float takes part in any result (tainted outputs: {tainted[:5]})", not tainted)
            else:
                bad = [k for k, x in enumerate(exact) if not isinstance(x, (int, Fraction)) or isinstance(x, bool)]
                env.holds(f"{cfg['op']}: every result is an int or a Fraction (others at {bad[:5]})", not bad)
            env.observe("outputs", exact)
            return
        if kind == "big":
            # exactness against the oracle where one is at hand: evaluation of the produced curve vs the original
            if env.sym:
                tainted = [k for k, x in enumerate(exact) if isinstance(x, SV) and x.t]
                env.holds(f"big rationals, {cfg['op']}: no float takes part", not tainted)
            if cfg["op"] in ("knot_remove", "degree_decrease"):
                env.eq(f"big rationals, {cfg['op']}: round trip restores the control points exactly", exact, list(P))
            elif cfg["op"] == "knot_insert":
                kv2 = KV(sorted(set(qvals) | {exq["mid"], exq["u2"]}),
                         [mults[qvals.index(v)] if v in qvals else 1 for v in sorted(set(qvals) | {exq["mid"], exq["u2"]})], p)
                kmode.same_function(env, "big rationals, knot_insert", kvq, P, None, kv2, exact, None)
            elif cfg["op"] == "degree_increase":
                kv2 = KV(qvals, [m + 1 for m in mults], p + 1)
                kmode.same_function(env, "big rationals, degree_increase", kvq, P, None, kv2, exact, None)
            elif cfg["op"] == "mul":
                pass  # covered by the taint obligation (the product space is checked in C08)
            return
        # floats: the same operation with the knots as floats / numpy floats
        for x in list(P) + list(Q) + list(Z):
            env.assume((x <= 1) & (x >= -1))
        conv = float if cfg["num"] == "float" else np.float64
        knotsf = [conv(v) for v in [fvals[i] for i, m in enumerate(mults) for _ in range(m)]]
        exf = dict(mid=conv(midf), u2=conv(u2f), Q=Q, Z=Z)
        got = outputs_of(cfg["op"], Curve, Function, knotsf, P, exf)
        if cfg["op"] == "fit_curve":
            got, exact = got[:-1], exact[:-1]  # the returned error is |quadratic form|: compared in the exact variants only
        env.holds("same number of results", len(got) == len(exact))
        tol = F(1, 10 ** 9)
        for k, (a, b) in enumerate(zip(got, exact)):
            d = a - b
            env.holds(f"{cfg['op']} with {cfg['num']} knots: result {k} within 1e-9 of the exact run", (d <= tol) & (-d <= tol))
        return

    # minimal point type
    p, mults = cfg["p"], cfg["mults"]
    if kind == "minimalS":
        t = env.ordered("t", len(mults), GAP)
    else:
        t = [F(float(v)) for v in cfg["vals"]]
    kv = KV(t, mults)
    X, Y = env.reals("X", kv.n), env.reals("Y", kv.n)
    pts = [MinimalPoint(x, y) for x, y in zip(X, Y)]
    Wm = conc_weights(kv.n, 17) if cfg.get("rat") else None
    if Wm is not None and env.sym and kind == "minimalS":
        from compmec.nurbs import heavy  # symbolic knots make the new weights symbolic: find_roots (float sampling) is stubbed
        env.patch(heavy, "find_roots", lambda *a, **k: ())
    try:
        c = Curve(list(kv.U), pts, Wm)
        op = cfg["op"]
        if op == "eval":
            u = env.real("u")
            env.assume((t[0] <= u) & (u <= t[-1]))
            val = c(u)
            d = kv.locate(u)
            rx, ry = curve_value(kv, X, Wm, u, d), curve_value(kv, Y, Wm, u, d)
            if Wm is not None:
                from ..ref import divnz
                rx, ry = divnz(rx[0], rx[1]), divnz(ry[0], ry[1])
            env.eq("minimal points: evaluation, x", val.x, rx)
            env.eq("minimal points: evaluation, y", val.y, ry)
            return
        if op == "knot_insert":
            z = (t[0] + t[1]) / 2
            c.knot_insert([z])
            kv2 = KV([t[0], z] + list(t[1:]), [mults[0], 1] + list(mults[1:]), p)
        elif op == "degree_increase":
            c.degree_increase(1)
            kv2 = KV(t, [m + 1 for m in mults], p + 1)
        else:
            z = (t[0] + t[1]) / 2
            pieces = c.split([z])
            c = pieces[0]
            kv2 = KV([t[0], z], [p + 1, p + 1], p)
        QX, QY = [q.x for q in c.ctrlpoints], [q.y for q in c.ctrlpoints]
        Wq = None if c.weights is None else list(c.weights)
        env.holds("minimal points: number of control points", len(QX) == kv2.n and (Wq is None) == (Wm is None))
        if kind == "minimalS":
            same_function(env, kv, X, Wm, kv2, QX, Wq, 0, f"minimal points {op} x")
            same_function(env, kv, Y, Wm, kv2, QY, Wq, 0, f"minimal points {op} y")
        else:
            hi = kv2.vals[-1]
            kmode.same_function(env, f"minimal points {op} x", kv, X, Wm, kv2, QX, Wq, lo=kv2.vals[0], hi=hi)
            kmode.same_function(env, f"minimal points {op} y", kv, Y, Wm, kv2, QY, Wq, lo=kv2.vals[0], hi=hi)
    except TypeError as e:
        env.fail(f"control points supporting only point+point and number*point are not enough: TypeError {str(e)[:90]}")
