"""C19  Projection returns nearest-point parameters.

Mode K, polylines only: a committed family of degree-1 curves with concrete vertices; the query point
(px, py) is symbolic.  advanced.py is run through the shims of symx.shims (list-backed set, numpy
proxy with exact norm); the concrete replays run the untouched module (with Fraction and with float data)."""
from __future__ import annotations

from fractions import Fraction

import numpy as np

from ..ref import KV
from .. import kmode, shims

ID = "C19"
CFG_TIMEOUT_S = {"quick": 600, "thorough": 1800}
MAX_PATHS = 20000
CONCRETE_WATCHDOG_S = 20
OBL_TIMEOUT_MS = 90000
F = Fraction

META = dict(
    technique='symbolic execution of advanced.py through shims (list-backed set, exact numpy-linalg proxy) with a symbolic query point; z3 nlsat obligations; float replays',
    bounds=dict(
        quick="7 polylines with 1-3 segments plus one with a repeated vertex (collinear, acute, obtuse, closed, self-touching, non-uniform knots), symbolic query point "
              "anywhere in the plane; point on the curve (symbolic parameter)",
        thorough="13 polylines with up to 4 segments",
    ),
    assumptions=["degree-1 curves with concrete rational vertices and knots; query point symbolic (real arithmetic stands in for float64)",
                 "shims: advanced.set -> list-backed set, advanced.np -> proxy with exact linalg.norm (square-root variables)",
                 "query point in [-10,10]^2; squared distances compared with slack 1e-4 (the library keeps all candidates within 1e-6 in distance)"],
    outside=["degree >= 2 and rational arcs (Newton iterates a data-dependent number of times)", "float64 rounding",
             "sampling-based termination: a path that does not finish is reported through the worker time-out / the replay watchdog"],
)

POLYLINES = [
    ([(0, 0), (1, 0)], [0, 1]),
    ([(0, 0), (1, 0), (1, 1)], [0, 1, 2]),
    ([(0, 0), (2, 0), (3, 0)], [0, 2, 3]),
    ([(0, 0), (2, 1), (0, 2)], [0, 1, 3]),
    ([(-1, 0), (0, 1), (1, 0), (0, -1)], [0, 1, 2, 3]),
    ([(0, 0), (1, 1), (2, 0), (1, -1)], [0, F(1, 2), 1, 2]),
    ([(0, 0), (3, 0), (3, 4)], [-1, 0, F(5, 2)]),
    ([(0, 0), (1, 2), (2, 0), (0, 0)], [0, 1, 2, 3]),
    ([(0, 0), (1, 0), (1, 1), (0, 1), (0, 0)], [0, 1, 2, 3, 4]),
    ([(0, 0), (4, 0), (4, 1), (0, 1)], [0, 4, 5, 9]),
    ([(0, 0), (1, 3)], [2, 5]),
    ([(0, 0), (1, 1), (0, 2), (1, 3), (0, 4)], [0, 1, 2, 3, 4]),
    ([(2, 2), (0, 0), (2, -2)], [0, 1, 2]),
    ([(0, 0), (1, 0), (2, 1), (3, 1)], [0, 1, F(3, 2), 3]),
]


def configs(tier, seed):
    cfgs = []
    fam_ = POLYLINES[:7] if tier == "quick" else POLYLINES[:13]  # (the 14th: one minimality obligation stays undecided after 90 s)
    for k, (V, knots) in enumerate(fam_):
        base = dict(V=[[str(F(a)), str(F(b))] for a, b in V], knots=[str(F(x)) for x in knots])
        cfgs.append(dict(name=f"polyline{k} free point", kind="free", floats=True, **base))
        cfgs.append(dict(name=f"polyline{k} point on the curve", kind="on", floats=True, **base))
    # slowly parametrised curves (|C'| << 1): the degenerate-piece guard must not mistake them for constant pieces
    cfgs.append(dict(name="slow parametrisation 1 segment", kind="free", floats=True, V=[["0", "0"], ["1", "1/2"]], knots=["0", "4000"]))
    cfgs.append(dict(name="slow parametrisation on the curve", kind="on", floats=True, V=[["0", "0"], ["1", "0"], ["1", "1"]],
                     knots=["0", "3000", "6000"]))
    cfgs.append(dict(name="repeated vertex (3)", kind="free", V=[["0", "0"], ["1", "0"], ["1", "0"]], knots=["0", "1", "2"], floats=True))
    if tier == "thorough":
        cfgs.append(dict(name="repeated vertex (4)", kind="free", V=[["0", "0"], ["1", "0"], ["1", "0"], ["1", "1"]],
                         knots=["0", "1", "2", "3"], floats=True))
    # straight segments / polylines stored with a higher degree: same answers, and the operand keeps its representation
    cfgs.append(dict(name="segment stored with degree 3, free point", kind="free", V=[["0", "0"], ["3", "1"]], knots=["0", "1"], floats=True, elevate=2))
    cfgs.append(dict(name="polyline stored with degree 2, free point", kind="free", V=[["0", "0"], ["2", "0"], ["2", "2"]], knots=["0", "1", "2"],
                     floats=True, elevate=1))
    return cfgs


def seg_point(V, knots, t, s):
    """C(t) on segment s"""
    a, b = knots[s], knots[s + 1]
    lam = (t - a) / (b - a)
    return [V[s][0] + lam * (V[s + 1][0] - V[s][0]), V[s][1] + lam * (V[s + 1][1] - V[s][1])]


def locate_seg(knots, t):
    for s in range(len(knots) - 2):
        if bool(t < knots[s + 1]):
            return s
    return len(knots) - 2


def body(env, cfg):
    from compmec.nurbs import Curve
    from compmec.nurbs import advanced

    V = [[F(a), F(b)] for a, b in cfg["V"]]
    knots = [F(x) for x in cfg["knots"]]
    if env.floats:
        V = [[float(a), float(b)] for a, b in V]
        knots = [float(x) for x in knots]
    U = [knots[0]] + list(knots) + [knots[-1]]
    pts = [np.array(v, dtype=object if not env.floats else float) for v in V]
    curve = Curve(U, pts)
    if cfg.get("elevate"):
        curve.degree_increase(cfg["elevate"])  # the same polyline, stored with a higher degree (reducible by clean())
    snap = kmode.snapshot(curve)
    nseg = len(knots) - 1
    if cfg["kind"] == "on":
        s = env.real("s")
        env.assume((s >= knots[0]) & (s <= knots[-1]))
        seg = locate_seg(knots, s)
        px, py = seg_point(V, knots, s, seg)
    else:
        px, py = env.real("px", nice=(-3, 3)), env.real("py", nice=(-3, 3))
        env.assume((px <= 10) & (px >= -10) & (py <= 10) & (py >= -10))
    shims.install(env, advanced)
    res = advanced.Projection.point_on_curve((px, py), curve)
    kmode.unchanged(env, curve, snap, "Projection: curve")
    res = tuple(res)
    env.holds("result is a non-empty tuple", len(res) >= 1)
    if not res:
        return
    env.observe("parameters", list(res))
    tolp = F(1, 10 ** 9) if not env.floats else 1e-7
    told = F(1, 10 ** 4)  # on squared distances: |d_i - d_j| < 1e-6 with d <= 30 gives |d_i^2 - d_j^2| < 6e-5
    for a, b in zip(res[:-1], res[1:]):
        env.holds("parameters are sorted", a <= b)
    d2s = []
    for k, r in enumerate(res):
        env.holds(f"parameter {k} inside [umin, umax]", (r >= knots[0]) & (r <= knots[-1]))
        sg = locate_seg(knots, r)
        cx, cy = seg_point(V, knots, r, sg)
        d2 = (cx - px) * (cx - px) + (cy - py) * (cy - py)
        d2s.append(d2)
        # stationarity for interior non-knot results
        if not any(bool(r == x) for x in knots):
            dx, dy = V[sg + 1][0] - V[sg][0], V[sg + 1][1] - V[sg][1]
            st = dx * (cx - px) + dy * (cy - py)
            env.holds(f"interior non-knot parameter {k} is a stationary point of the distance", (st <= tolp) & (-st <= tolp))
    for k, d2 in enumerate(d2s[1:]):
        diff = d2 - d2s[0]
        env.holds("all returned parameters are at the same distance", (diff <= told) & (-diff <= told))
    if cfg["kind"] == "on":
        env.holds("a point of the curve is projected onto itself (distance 0)", (d2s[0] <= tolp) & (-d2s[0] <= tolp))
    # global minimum over every segment: for all t in the segment  d2(result) <= d2(t) + slack
    t = env.real("t", nice=(float(knots[0]), float(knots[-1])) if True else None)
    for sg in range(nseg):
        a, b = knots[sg], knots[sg + 1]
        lam = (t - a) / (b - a)
        cx = V[sg][0] + lam * (V[sg + 1][0] - V[sg][0])
        cy = V[sg][1] + lam * (V[sg + 1][1] - V[sg][1])
        dt = (cx - px) * (cx - px) + (cy - py) * (cy - py)
        inside = (t >= a) & (t <= b)
        if env.sym:
            env.holds(f"no point of segment {sg} is nearer than the returned one", (~inside) | (d2s[0] <= dt + told))
        else:
            for q in range(0, 21):
                tt = a + (b - a) * q / 20
                ll = (tt - a) / (b - a)
                x_, y_ = V[sg][0] + ll * (V[sg + 1][0] - V[sg][0]), V[sg][1] + ll * (V[sg + 1][1] - V[sg][1])
                if not (d2s[0] <= (x_ - px) ** 2 + (y_ - py) ** 2 + told):
                    env.fail(f"segment {sg} has a nearer point at t={tt}")
                    break
            else:
                env.holds(f"no point of segment {sg} is nearer than the returned one", True)
