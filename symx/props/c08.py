"""C08  Curve arithmetic is pointwise.

Mode K: concrete Fraction knot vectors (pairs on a common interval), symbolic control points P, Q and
scalar s.  The result of every operator is compared with the pointwise operation on the oracle's
polynomial pieces (rational results cross-multiplied), interval by interval."""
from __future__ import annotations

from fractions import Fraction

import numpy as np

from ..ref import KV, Poly
from .. import fam, kmode
from .c01 import make_points

ID = "C08"
CFG_TIMEOUT_S = {"quick": 400, "thorough": 1800}

META = dict(
    bounds=dict(
        quick="12 pairs of concrete knot vectors (degree 0..3; equal / different degree; disjoint, shared and differently repeated "
              "interior knots) x operators + - * @ / unary- and the scalar forms; polynomial, and rational with concrete weights; "
              "scalar and 2-D control points (symbolic)",
        thorough="the 12 pairs plus ~60 seeded random pairs of patterns (degree sum <= 4) on random rational breakpoints",
    ),
    assumptions=["exact real arithmetic (Fraction knots)", "rational operands carry concrete positive weights",
                 "A / B: control points of B are assumed positive (B has no zero) and heavy.find_roots is stubbed to () "
                 "while they are symbolic"],
    outside=["symbolic knot values (the library solves linear systems on them)", "3-D points", "float rounding"],
)

F = Fraction

PAIRS = [
    # (pA, valsA, multsA, pB, valsB, multsB)
    (1, [0, 1], [2, 2], 1, [0, 1], [2, 2]),
    (2, [0, F(1, 2), 1], [3, 1, 3], 2, [0, F(1, 2), 1], [3, 2, 3]),
    (1, [0, 1, 2], [2, 1, 2], 2, [0, 2], [3, 3]),
    (2, [-1, 0, F(1, 3), 2], [3, 1, 2, 3], 1, [-1, 2], [2, 2]),
    (1, [0, F(1, 3), 1], [2, 1, 2], 1, [0, F(2, 3), 1], [2, 1, 2]),
    (2, [0, 1, 3], [3, 2, 3], 1, [0, 2, 3], [2, 1, 2]),
    (0, [0, 1, 2], [1, 1, 1], 1, [0, 2], [2, 2]),
    (3, [0, 1], [4, 4], 1, [0, F(1, 2), 1], [2, 2, 2]),
    (2, [0, 1, 2, 3], [3, 1, 2, 3], 2, [0, 1, 2, 3], [3, 2, 1, 3]),
    (0, [0, 1], [1, 1], 0, [0, F(1, 4), 1], [1, 1, 1]),
    (3, [0, 2, 5], [4, 2, 4], 0, [0, 5], [1, 1]),
    (1, [-2, -1, 0], [2, 2, 2], 2, [-2, -1, 0], [3, 1, 3]),
]

OPS2 = ["add", "sub", "mul", "matmul", "div"]
OPS1 = ["neg", "s+A", "A+s", "s-A", "A-s", "s*A", "A*s", "A/s", "s/A", "M@A", "A@M"]


def configs(tier, seed):
    cfgs = []
    pairs = list(PAIRS)
    if tier == "thorough":
        import random
        rnd = random.Random(seed)
        pats = fam.pattern_family(range(0, 4), 2, seed=seed)
        for i in range(70):
            (pa, ma), (pb, mb) = rnd.choice(pats), rnd.choice(pats)
            if pa + pb > 4 or len(ma) + len(mb) > 7:
                continue
            pool = sorted(rnd.sample([F(x, 12) for x in range(1, 36)], 4))
            lo, hi = F(rnd.randint(-3, 0)), F(rnd.randint(3, 5))
            va = [lo] + sorted(rnd.sample(pool, len(ma) - 2)) + [hi]
            vb = [lo] + sorted(rnd.sample(pool, len(mb) - 2)) + [hi]
            pairs.append((pa, va, ma, pb, vb, mb))
    quick_all = True
    for k, (pa, va, ma, pb, vb, mb) in enumerate(pairs):
        base = dict(pa=pa, va=[str(F(v)) for v in va], ma=ma, pb=pb, vb=[str(F(v)) for v in vb], mb=mb)
        for j, op in enumerate(OPS2):
            heavy_case = pa + pb >= 4 or len(va) + len(vb) >= 7
            if k >= len(PAIRS) and op in ("mul", "matmul", "div") and heavy_case and (k + j + seed) % 2:
                continue
            dim = 2 if op == "matmul" or (op in ("add", "sub") and (k + j + seed) % 2 == 0) else 0
            cfgs.append(dict(name=f"pair{k} {op} pol dim={dim}", kind="binary", op=op, rat="", dim=dim, **base))
            if op in ("mul", "div") and pa + pb <= 3 and k < len(PAIRS):
                # a vector-valued curve times / over a scalar-valued one (what the library itself needs for rational curves)
                forms = ("vec*scalar", "scalar*vec", "vec*vec") if op == "mul" else ("vec/scalar",)
                cfgs.append(dict(name=f"pair{k} {op} {forms[(k + seed) % len(forms)]}", kind="binary", op=op, rat="", dim=0,
                                 mixed=forms[(k + seed) % len(forms)], **base))
            if op == "matmul" and k < len(PAIRS) and pa + pb <= 3:
                rat = ("A", "B", "AB")[(k + j) % 3]
                cfgs.append(dict(name=f"pair{k} {op} rat={rat} dim=2", kind="binary", op=op, rat=rat, dim=2, **base))
            if op != "matmul" and (k < len(PAIRS) or (k + j + seed) % 3 == 0) and pa + pb <= 3:
                rat = ("A", "B", "AB")[(k + j) % 3]
                cfgs.append(dict(name=f"pair{k} {op} rat={rat} dim=0", kind="binary", op=op, rat=rat, dim=0, **base))
                if sum(ma) - pa == sum(mb) - pb and (pa, va, ma) != (pb, vb, mb):
                    # both operands carry the very same weight tuple, on different knot vectors / degrees
                    cfgs.append(dict(name=f"pair{k} {op} rat=AB, equal weight tuples dim=0", kind="binary", op=op, rat="AB=", dim=0, **base))
        if k < len(PAIRS) or k % 3 == seed % 3:
            for op in OPS1:
                dim = 2 if op in ("M@A", "A@M") or (op in ("neg", "s*A", "A*s", "A/s") and k % 2) else 0
                cfgs.append(dict(name=f"pair{k} {op} dim={dim}", kind="unary", op=op, rat="", dim=dim, **base))
                if op not in ("M@A", "A@M"):  # (matrix forms act on 2-D points; rational runs use scalar points)
                    cfgs.append(dict(name=f"pair{k} {op} rat dim=0", kind="unary", op=op, rat="A", dim=0, **base))
    cfgs.append(dict(name="different intervals", kind="interval"))
    return cfgs


def conc_weights(n, k):
    """concrete positive weights, none of them an integer (an integer weight hides truncation bugs)"""
    return [F(2 * (1 + ((i * 7 + k * 3) % 5)) + 1, 2 * (1 + ((i + k) % 3))) for i in range(n)]


def rep(kv, P, W, a):
    """(per-coordinate numerator polys, denominator poly) of the curve on the interval starting at a"""
    return kmode.num_den(kv, P, W, kmode.interval_of(kv, a))


def cmp_rat(env, tag, got, exp):
    (gn, gd), (en, ed) = got, exp
    if len(gn) != len(en):
        env.fail(f"{tag}: result has {len(gn)} coordinates, expected {len(en)}")
        return
    for k, (x, y) in enumerate(zip(gn, en)):
        kmode.poly_eq(env, f"{tag} coord {k}", x * ed, y * gd)


def body(env, cfg):
    from compmec.nurbs import Curve
    from compmec.nurbs import heavy

    if cfg["kind"] == "interval":
        P, Q = env.reals("P", 2), env.reals("Q", 2)
        A = Curve([F(0), F(0), F(1), F(1)], P)
        B = Curve([F(0), F(0), F(2), F(2)], Q)
        C = Curve([F(1), F(1), F(2), F(2)], Q)
        for other in (B, C):
            for name, fn in [("+", lambda x, y: x + y), ("-", lambda x, y: x - y), ("*", lambda x, y: x * y),
                             ("@", lambda x, y: x @ y), ("/", lambda x, y: x / y)]:
                sa, sb = kmode.snapshot(A), kmode.snapshot(other)
                try:
                    fn(A, other)
                except ValueError:
                    kmode.unchanged(env, A, sa, f"rejected {name}")
                    kmode.unchanged(env, other, sb, f"rejected {name}")
                    continue
                env.fail(f"A {name} B on different intervals did not raise ValueError")
        return

    va, vb = [F(v) for v in cfg["va"]], [F(v) for v in cfg["vb"]]
    kva, kvb = KV(va, cfg["ma"]), KV(vb, cfg["mb"])
    dim, op = cfg["dim"], cfg["op"]
    mixed = cfg.get("mixed", "")
    dimA = 2 if mixed.startswith("vec") else dim
    dimB = 2 if mixed.endswith("vec") else dim
    if mixed:
        dim = dimA
    P = make_points(env, "P", kva.n, dimA)
    WA = conc_weights(kva.n, 1) if "A" in cfg["rat"] else None
    A = Curve(list(kva.U), P, WA)
    sa = kmode.snapshot(A)
    pts = kmode.breakpoints(kva, kvb if cfg["kind"] == "binary" else kva)

    if cfg["kind"] == "binary":
        Q = make_points(env, "Q", kvb.n, dimB if mixed else dim)
        WB = conc_weights(kvb.n, 1 if "=" in cfg["rat"] else 2) if "B" in cfg["rat"] else None
        if op == "div":
            for q in Q:
                env.assume(q >= F(1, 10))
            if env.sym:
                env.patch(heavy, "find_roots", lambda *a, **k: ())
        B = Curve(list(kvb.U), Q, WB)
        sb = kmode.snapshot(B)
        R = {"add": lambda: A + B, "sub": lambda: A - B, "mul": lambda: A * B, "matmul": lambda: A @ B,
             "div": lambda: A / B}[op]()
        kmode.unchanged(env, A, sa, f"{op}: left operand")
        kmode.unchanged(env, B, sb, f"{op}: right operand")
        env.holds("result is a curve on the same interval", isinstance(R, Curve) and
                  R.knotvector[0] == va[0] and R.knotvector[-1] == va[-1])
        kvr = kmode.lib_kv(R)
        RP, RW = list(R.ctrlpoints), (None if R.weights is None else list(R.weights))
        env.observe("result ctrlpoints", RP)
        allpts = sorted(set(pts) | set(kvr.vals))
        for a, b in zip(allpts[:-1], allpts[1:]):
            (an, ad), (bn, bd) = rep(kva, P, WA, a), rep(kvb, Q, WB, a)
            got = rep(kvr, RP, RW, a)
            if op == "add":
                exp = ([x * bd + y * ad for x, y in zip(an, bn)], ad * bd)
            elif op == "sub":
                exp = ([x * bd - y * ad for x, y in zip(an, bn)], ad * bd)
            elif op == "mul" and mixed:
                m = max(len(an), len(bn))
                exp = ([an[c % len(an)] * bn[c % len(bn)] for c in range(m)], ad * bd)
            elif op == "mul":
                exp = ([x * y for x, y in zip(an, bn)], ad * bd)
            elif op == "matmul":
                acc = Poly([0])
                for x, y in zip(an, bn):
                    acc = acc + x * y
                exp = ([acc], ad * bd)
            else:
                exp = ([x * bd for x in an], ad * bn[0])
            cmp_rat(env, f"(A {op} B)(u) on [{a},{b}]", got, exp)
        return

    # unary / scalar forms
    s = env.real("s")
    if op in ("A/s",):
        env.assume((s >= F(1, 100)) | (s <= -F(1, 100)))
    M = None
    if op in ("M@A", "A@M"):
        M = ((env.real("m00"), env.real("m01")), (env.real("m10"), env.real("m11")))  # plain tuples, as the tests use
    if op == "s/A":
        for q in P:
            env.assume(q >= F(1, 10))
        if env.sym:
            env.patch(heavy, "find_roots", lambda *a, **k: ())
    R = {"neg": lambda: -A, "s+A": lambda: s + A, "A+s": lambda: A + s, "s-A": lambda: s - A, "A-s": lambda: A - s,
         "s*A": lambda: s * A, "A*s": lambda: A * s, "A/s": lambda: A / s, "s/A": lambda: s / A,
         "M@A": lambda: M @ A, "A@M": lambda: A @ M}[op]()
    kmode.unchanged(env, A, sa, f"{op}: operand")
    env.holds("result is a curve on the same interval", isinstance(R, Curve) and
              R.knotvector[0] == va[0] and R.knotvector[-1] == va[-1])
    kvr = kmode.lib_kv(R)
    RP, RW = list(R.ctrlpoints), (None if R.weights is None else list(R.weights))
    env.observe("result ctrlpoints", RP)
    allpts = sorted(set(pts) | set(kvr.vals))
    for a, b in zip(allpts[:-1], allpts[1:]):
        an, ad = rep(kva, P, WA, a)
        got = rep(kvr, RP, RW, a)
        if op == "neg":
            exp = ([-x for x in an], ad)
        elif op in ("s+A", "A+s"):
            exp = ([x + ad * s for x in an], ad)
        elif op == "s-A":
            exp = ([ad * s - x for x in an], ad)
        elif op == "A-s":
            exp = ([x - ad * s for x in an], ad)
        elif op in ("s*A", "A*s"):
            exp = ([x * s for x in an], ad)
        elif op == "A/s":
            exp = (an, ad * s)
        elif op == "s/A":
            exp = ([ad * s], an[0])
        elif op == "M@A":
            exp = ([an[0] * M[r][0] + an[1] * M[r][1] for r in range(2)], ad)
        else:
            exp = ([an[0] * M[0][c] + an[1] * M[1][c] for c in range(2)], ad)
        cmp_rat(env, f"({op})(u) on [{a},{b}]", got, exp)
