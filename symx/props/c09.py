"""C09  Derivate(curve) is the derivative of the curve.

Mode K: concrete Fraction knots (and concrete weights), symbolic control points.  Oracle: the
polynomial pieces of the curve from Cox-de Boor, differentiated coefficient-wise (no B-spline
derivative formula is used).  Where the library computes in float64 (Calculus.difference_vector) the
Bernstein coefficients of every piece (on its own interval) are compared with tolerance for all |P_i| <= 1 (the map is
linear in P)."""
from __future__ import annotations

from fractions import Fraction

import numpy as np

from ..ref import KV, Poly
from .. import fam, kmode
from .c01 import make_points
from .c08 import conc_weights

ID = "C09"
CFG_TIMEOUT_S = {"quick": 400, "thorough": 1800}
F = Fraction
TOL = F(1e-9)  # the library compares with the float 1e-9, which is slightly above 10^-9

META = dict(
    bounds=dict(
        quick="~45 concrete knot vectors: every multiplicity pattern of degree 0..3 with <=2 interior knots on non-uniform rational values "
              "(including C0 and discontinuous knots); polynomial (scalar / 2-D) and rational (concrete weights, degree <= 2)",
        thorough="degree 0..4 patterns with <=2 interior knots and degree <=2 with 3; two value assignments each",
    ),
    assumptions=[
        "Fraction knots; control points symbolic reals, bounded |P_i| <= 1 where a float64 matrix of the library is involved",
        "spline derivative: Calculus.difference_vector stores p/(u_(i+p)-u_i) in a float64 array, so every power-basis coefficient "
        "(in the Bernstein basis of its own knot interval, so that the bound holds pointwise on the interval) of every polynomial "
        "piece of D is required within 1e-9*(1+scale) of the oracle's, scale = largest exact coefficient for |P_i| <= 1",
        "Bezier derivative: Derivate calls clean(); on paths where clean() lowers the degree further within its 1e-9 tolerance "
        "without being exact, the L2 deviation bound k^2*2e-9*max(1,L) is required instead (k <= 2 inexact steps claimed)",
    ],
    outside=["symbolic knots", "bit-level float behaviour", "degree >= 5"],
)


def configs(tier, seed):
    cfgs = []
    if tier == "quick":
        famy = fam.pattern_family(range(0, 4), 2, seed=seed)
    else:
        famy = fam.pattern_family(range(0, 5), 2, seed=seed)
        famy += [c for c in fam.pattern_family(range(0, 3), 3, seed=seed) if len(c[1]) == 5]
    for k, (p, pat) in enumerate(famy):
        for rep in range(1 if tier == "quick" else 2):
            vals = fam.concrete_values(len(pat), seed + rep, k)
            base = dict(p=p, mults=pat, vals=[str(v) for v in vals])
            dim = 2 if k % 3 == 0 else 0
            cfgs.append(dict(name=f"pol p={p} mults={pat} vals={base['vals']} dim={dim}", rat=False, dim=dim, **base))
            if 1 <= p <= 2 and (len(pat) <= 3 or tier == "thorough" or (k + seed) % 2 == 0):
                cfgs.append(dict(name=f"rat p={p} mults={pat} vals={base['vals']}", rat=True, dim=0, **base))
                if len(pat) <= 3:
                    # all weights equal (to 5/2): the same function as the polynomial curve, described rationally
                    cfgs.append(dict(name=f"rat, equal weights p={p} mults={pat} vals={base['vals']}", rat="equal", dim=0, **base))
                    # vector-valued rational curve (a conic arc)
                    cfgs.append(dict(name=f"rat 2-D p={p} mults={pat} vals={base['vals']}", rat=True, dim=2, **base))
    # knot vectors given as Python ints (the library then divides ints: float results, compared with tolerance)
    for k, (p, pat, ivals) in enumerate([(1, [2, 1, 2], [0, 2, 7]), (2, [3, 1, 1, 3], [0, 1, 4, 6]), (3, [4, 2, 4], [-3, 0, 4]),
                                          (2, [3, 2, 3], [1, 4, 5]), (2, [3, 3], [0, 3])]):
        cfgs.append(dict(name=f"int knots p={p} mults={pat} vals={ivals}", rat=False, dim=0, p=p, mults=pat,
                         vals=[str(v) for v in ivals], intknots=True))
    return cfgs


def deriv_pieces(kv, P, W, a):
    """numerators (per coordinate) and denominator of dC/du on the interval starting at a"""
    nums, den = kmode.num_den(kv, P, W, kmode.interval_of(kv, a))
    if W is None:
        return [n.derivative() for n in nums], Poly([1])
    dden = den.derivative()
    return [n.derivative() * den - n * dden for n in nums], den * den


def unit_sensitivity(kv, W, a, npts, dim, which):
    """sum_i |d coef_k / d P_i| of the exact cross-multiplied expression (concrete)"""
    raise NotImplementedError


def close(env, name, A: Poly, B: Poly, tol):
    n = max(len(A.c), len(B.c))
    for k, (x, y) in enumerate(zip(kmode.pad(A.c, n), kmode.pad(B.c, n))):
        d = x - y
        env.holds(f"{name} [u^{k}]", (d <= tol) & (-d <= tol))


def body(env, cfg):
    from compmec.nurbs import Curve
    from compmec.nurbs.calculus import Derivate

    p, mults = cfg["p"], cfg["mults"]
    vals = [F(v) for v in cfg["vals"]]
    kv = KV(vals, mults)
    dim = cfg["dim"]
    P = make_points(env, "P", kv.n, dim)
    W = conc_weights(kv.n, 3) if cfg["rat"] else None
    if cfg["rat"] == "equal":
        W = [F(5, 2)] * kv.n
    U = [int(x) for x in kv.U] if cfg.get("intknots") else list(kv.U)
    C = Curve(U, P, W)
    snap = kmode.snapshot(C)
    bezier = kv.n == p + 1
    floaty = (not bezier and p > 0) or bool(cfg.get("intknots"))  # the spline branch goes through a float64 matrix
    if floaty:
        for c in kmode.coords(P):
            for x in c:
                env.assume((x <= 1) & (x >= -1))
    D = Derivate(C)
    kmode.unchanged(env, C, snap, "Derivate: operand")
    env.holds("D is a curve on the same interval", isinstance(D, Curve) and D.knotvector[0] == vals[0]
              and D.knotvector[-1] == vals[-1])
    kvd = kmode.lib_kv(D)
    DP, DW = list(D.ctrlpoints), (None if D.weights is None else list(D.weights))
    env.observe("D ctrlpoints", DP)
    if p == 0:
        for c in kmode.coords(DP):
            env.eq("degree 0 gives the zero curve", c, [0] * len(c))
        return
    pts = sorted(set(kv.vals) | set(kvd.vals))
    inexact_steps = 0
    if bezier and W is None:
        inexact_steps = (p - 1) - D.degree  # clean() lowered the degree that many extra times
        env.holds("derivative of a degree-p Bezier has degree <= p-1", 0 <= inexact_steps <= p - 1)
    if inexact_steps > 0:
        # symbolic control points for which a lower degree is within clean()'s tolerance
        env.assume(inexact_steps <= 2)
        L = vals[-1] - vals[0]
        bound = 2 * TOL * max(1, L) * inexact_steps * inexact_steps
        for c, (cd, cp) in enumerate(zip(kmode.coords(DP), kmode.coords(P))):
            tot = 0
            for a, b in zip(pts[:-1], pts[1:]):
                diff = kmode.piece(kvd, cd, kmode.interval_of(kvd, a)) - kmode.piece(kv, cp, kmode.interval_of(kv, a)).derivative()
                tot = tot + (diff * diff).integral(a, b)
            env.holds(f"clean() lowered the degree {inexact_steps}x within tolerance: L2 deviation bounded (coord {c})", tot <= bound)
        return
    # sensitivity of the exact expression (for relative tolerance), from unit control points
    for a, b in zip(pts[:-1], pts[1:]):
        en, ed = deriv_pieces(kv, P, W, a)
        gn, gd = kmode.num_den(kvd, DP, DW, kmode.interval_of(kvd, a))
        if len(gn) != len(en):
            env.fail("D has a different point dimension")
            return
        for k, (g, e) in enumerate(zip(gn, en)):
            lhs, rhs = g * ed, e * gd
            if not floaty:
                kmode.poly_eq(env, f"D(u) == dC/du on ({a},{b}) coord {k}", lhs, rhs)
            else:
                # compare in the Bernstein basis of the interval: max |coefficient| bounds the function there
                Ks = _sens(kv, W, a, b, kv.n, gd, k, dim, max(lhs.deg(), rhs.deg()))
                n = len(Ks) - 1
                bl, br = kmode.to_bernstein(lhs, a, b, n), kmode.to_bernstein(rhs, a, b, n)
                scale = max(Ks) if Ks else 0
                tol = TOL * (1 + scale)
                for j, (x, y) in enumerate(zip(bl, br)):
                    d = x - y
                    env.holds(f"D(u) ~ dC/du on ({a},{b}) coord {k} Bernstein coefficient {j} within 1e-9*(1+scale)",
                              (d <= tol) & (-d <= tol))


def _sens(kv, W, a, b, npts, gd, coord, dim, n):
    """per Bernstein coefficient (degree >= n): sum over i of |coefficient of the exact right-hand side for P = e_i|"""
    polys = []
    for i in range(npts):
        if dim == 0:
            P = [F(1) if j == i else F(0) for j in range(npts)]
        else:
            P = [np.array([F(1) if (j == i and c == coord) else F(0) for c in range(dim)], dtype=object) for j in range(npts)]
        en, _ = deriv_pieces(kv, P, W, a)
        polys.append(en[coord] * gd)
    n = max([n] + [q.deg() for q in polys])
    acc = [F(0)] * (n + 1)
    for q in polys:
        for j, c in enumerate(kmode.to_bernstein(q, a, b, n)):
            acc[j] += abs(F(c))
    return acc
