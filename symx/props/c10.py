"""C10  Quadrature rules are exact to their order; spline integrals are exact.

rules   : the rule returned by the library for (family, n) applied to a polynomial with symbolic
          coefficients equals its exact integral (Newton-Cotes: exactly; float rules: 1e-12);
memo    : inductive step over the six module-level memo tables: from an arbitrary state in which every
          table holds an arbitrary subset of correct entries (membership is a solver variable), one call
          returns the right rule and leaves every table correct;
scalar  : Integrate.scalar == sum_i P_i (u_(i+p+1) - u_i)/(p+1) (mode S with an explicit rule, mode K default);
function: Integrate.function integrates per-span polynomials of degree < nnodes exactly;
lenght  : Integrate.lenght of a polyline with symbolic vertices is the sum of the segment lengths."""
from __future__ import annotations

from fractions import Fraction

import numpy as np

from ..ref import KV, Poly
from .. import fam, kmode
from .c01 import make_points
from .c03 import GAP

ID = "C10"
CFG_TIMEOUT_S = {"quick": 400, "thorough": 1800}
F = Fraction
FAMILIES = ["closed-newton-cotes", "open-newton-cotes", "chebyshev", "gauss-legendre"]

META = dict(
    technique='symbolic execution of the real code + z3: linear-arithmetic identities over symbolic polynomial coefficients; inductive step over symbolic memo-table states (membership = solver variable); polynomial identities for spline integrals; lemma-split nlsat query for polyline length',
    bounds=dict(
        quick="rules: 4 families, n <= 8; memo: every (function, n) with n <= 5 from every subset state of the entries with n <= 5; "
              "Integrate.scalar: mode S degree 0..3 <=2 interior knots with the two Newton-Cotes rules, mode K default rule and each of "
              "the four methods with its default size (float rules: within 1e-9 for |P_i| <= 1); "
              "Integrate.function: nnodes <= 4, symbolic polynomial per span; lenght: polylines with 1-5 segments, symbolic vertices, default and each explicit method",
        thorough="rules n <= 12; memo n <= 7; Integrate.scalar all patterns of degree <= 3",
    ),
    assumptions=["polynomial coefficients symbolic reals (|c_j| <= 1 for the float rules, tolerance 1e-12 per unit coefficient)",
                 "memo tables: only entries for sizes up to the bound may be present, and those present are correct (the invariant)",
                 "lenght: vertices in [-10,10]^2, consecutive ones at least 1e-3 apart in x; result compared within 1e-9 per segment (float64 derivative matrix)"],
    outside=["rounding inside numpy's leggauss / sin beyond the 1e-12 check", "n above the bound", "curved lengths"],
)


def configs(tier, seed):
    cfgs = []
    nmax = 8 if tier == "quick" else 12
    for famname in FAMILIES:
        for n in range(1, nmax + 1):
            if famname == "closed-newton-cotes" and n < 2:
                continue
            cfgs.append(dict(name=f"rule {famname} n={n}", kind="rule", fam=famname, n=n))
    mmax = 5 if tier == "quick" else 7
    for fn in ["NodeSample.chebyshev", "NodeSample.gauss_legendre", "IntegratorArray.closed_newton_cotes",
               "IntegratorArray.open_newton_cotes", "IntegratorArray.chebyshev", "IntegratorArray.gauss_legendre"]:
        for n in range(1, mmax + 1):
            if fn.endswith("closed_newton_cotes") and n < 2:
                continue
            cfgs.append(dict(name=f"memo {fn}({n})", kind="memo", fn=fn, n=n, mmax=mmax))
    famy = fam.pattern_family(range(0, 4), 2, seed=seed)
    if tier == "quick":
        famy = [c for i, c in enumerate(famy) if len(c[1]) <= 3 or (i + seed) % 4 == 0]
    for i, (p, pat) in enumerate(famy):
        meth = ("open-newton-cotes", "closed-newton-cotes")[i % 2]
        cfgs.append(dict(name=f"scalar S p={p} mults={pat} {meth}", kind="scalarS", p=p, mults=pat, method=meth, dim=0))
        vals = fam.concrete_values(len(pat), seed, i)
        cfgs.append(dict(name=f"scalar K p={p} mults={pat} vals={[str(v) for v in vals]} default", kind="scalarK", p=p, mults=pat,
                         vals=[str(v) for v in vals], dim=0))
    # every method with its default number of nodes, on concrete vectors (the float rules within 1e-9 for |P_i| <= 1)
    for i, (p, pat) in enumerate(famy):
        if tier == "quick" and len(pat) > 3 and (i + seed) % 2:
            continue
        vals = fam.concrete_values(len(pat), seed + 1, i)
        for meth in FAMILIES:
            cfgs.append(dict(name=f"scalar K p={p} mults={pat} vals={[str(v) for v in vals]} {meth}", kind="scalarM", p=p, mults=pat,
                             vals=[str(v) for v in vals], method=meth, dim=0))
    # a weight function g: the integral of g(u) C(u), g a polynomial with symbolic coefficients, rule large enough to be exact
    for i, (p, pat) in enumerate(famy):
        if p > 2 or len(pat) > 3 + (tier != "quick"):
            continue
        vals = fam.concrete_values(len(pat), seed + 3, i)
        for meth in ("open-newton-cotes", "closed-newton-cotes"):
            cfgs.append(dict(name=f"scalar K p={p} mults={pat} vals={[str(v) for v in vals]} {meth} with weight function", kind="scalarG",
                             p=p, mults=pat, vals=[str(v) for v in vals], method=meth, dim=0))
    for nn in (1, 2, 3, 4):
        for meth in ("open-newton-cotes", "closed-newton-cotes"):
            if meth == "closed-newton-cotes" and nn < 2:
                continue
            cfgs.append(dict(name=f"function nnodes={nn} {meth}", kind="function", nn=nn, method=meth))
    for segs in (1, 2, 3, 4, 5):
        cfgs.append(dict(name=f"lenght polyline {segs} segments", kind="lenght", segs=segs, floats=True))
    for k, meth in enumerate(FAMILIES):
        for segs, nn in ((2, None), (3, 2 + k % 2)):
            cfgs.append(dict(name=f"lenght polyline {segs} segments {meth} nnodes={nn}", kind="lenght", segs=segs, floats=True, method=meth, nn=nn))
    return cfgs


def _rule(famname, n):
    from compmec.nurbs import heavy
    nodes = {"closed-newton-cotes": heavy.NodeSample.closed_linspace, "open-newton-cotes": heavy.NodeSample.open_linspace,
             "chebyshev": heavy.NodeSample.chebyshev, "gauss-legendre": heavy.NodeSample.gauss_legendre}[famname](n)
    weights = {"closed-newton-cotes": heavy.IntegratorArray.closed_newton_cotes,
               "open-newton-cotes": heavy.IntegratorArray.open_newton_cotes, "chebyshev": heavy.IntegratorArray.chebyshev,
               "gauss-legendre": heavy.IntegratorArray.gauss_legendre}[famname](n)
    return nodes, weights


TABLES = {
    "NodeSample.chebyshev": ("NodeSample", "_NodeSample__cheby"),
    "NodeSample.gauss_legendre": ("NodeSample", "_NodeSample__gauss"),
    "IntegratorArray.closed_newton_cotes": ("IntegratorArray", "_IntegratorArray__closed_newton"),
    "IntegratorArray.open_newton_cotes": ("IntegratorArray", "_IntegratorArray__open_newton"),
    "IntegratorArray.chebyshev": ("IntegratorArray", "_IntegratorArray__cheby"),
    "IntegratorArray.gauss_legendre": ("IntegratorArray", "_IntegratorArray__gauss"),
}


class SymDict(dict):
    """memo table in an arbitrary correct state: whether the entry for a size is present is a solver variable,
    decided (forked) the first time the library asks"""

    def __init__(self, env, prefix, correct, fixed):
        super().__init__(fixed)
        self.env, self.prefix, self.correct = env, prefix, correct
        self.decided = {n: True for n in fixed}

    def _decide(self, key):
        if key in self.decided:
            return self.decided[key]
        if key not in self.correct:
            self.decided[key] = False
            return False
        has = self.env.real(f"{self.prefix}_{key}", nice=(0, 1))
        self.env.assume((has == 0) | (has == 1))
        present = bool(has == 1)
        self.decided[key] = present
        if present:
            dict.__setitem__(self, key, self.correct[key])
        return present

    def __contains__(self, key):
        return self._decide(key)

    def __getitem__(self, key):
        if not self._decide(key):
            raise KeyError(key)
        return dict.__getitem__(self, key)

    def __setitem__(self, key, value):
        self.decided[key] = True
        dict.__setitem__(self, key, value)


def _close(a, b, tol=1e-13):
    return len(a) == len(b) and all(abs(float(x) - float(y)) <= tol for x, y in zip(a, b))


def _memo(env, cfg):
    """one call from an arbitrary correct state of all six tables"""
    from compmec.nurbs import heavy
    mmax = cfg["mmax"]
    # reference values from pristine tables (computed once, on a fresh copy of the initial literals)
    originals = {}
    for fn, (cls, attr) in TABLES.items():
        originals[fn] = dict(getattr(getattr(heavy, cls), attr))
    correct = {}
    for fn, (cls, attr) in TABLES.items():
        f = getattr(getattr(heavy, cls), fn.split(".")[1])
        correct[fn] = {}
        for n in range(1, mmax + 1):
            if fn.endswith("closed_newton_cotes") and n < 2:
                continue
            correct[fn][n] = tuple(f(n))
    # arbitrary state: each entry present or not -- decided lazily, when the library first looks at it, by a solver
    # variable; entries the call never touches stay arbitrary (they are correct by the invariant)
    state = {}
    for fn, (cls, attr) in TABLES.items():
        fixed = {n: v for n, v in originals[fn].items() if n <= 3}
        state[fn] = SymDict(env, f"has_{attr.split('__')[1]}_{cls[0]}", correct[fn], fixed)
    try:
        for fn, (cls, attr) in TABLES.items():
            setattr(getattr(heavy, cls), attr, state[fn])
        cls, name = cfg["fn"].split(".")
        got = tuple(getattr(getattr(heavy, cls), name)(cfg["n"]))
        exact = cfg["fn"] in ("IntegratorArray.closed_newton_cotes", "IntegratorArray.open_newton_cotes")
        want = correct[cfg["fn"]][cfg["n"]]
        env.holds(f"{cfg['fn']}({cfg['n']}) does not depend on what was requested earlier",
                  (tuple(got) == tuple(want)) if exact else _close(got, want))
        bad = []
        for fn, (cls, attr) in TABLES.items():
            tab = getattr(getattr(heavy, cls), attr)
            for n, val in dict.items(tab):
                ex = fn in ("IntegratorArray.closed_newton_cotes", "IntegratorArray.open_newton_cotes")
                if n not in correct[fn] or not ((tuple(val) == tuple(correct[fn][n])) if ex else _close(val, correct[fn][n])):
                    bad.append(f"{fn}[{n}]")
        env.holds("every memo table still holds only correct entries: " + ",".join(bad[:4]), not bad)
    finally:
        for fn, (cls, attr) in TABLES.items():
            setattr(getattr(heavy, cls), attr, originals[fn])


def body(env, cfg):
    from compmec.nurbs import Curve, KnotVector
    from compmec.nurbs.calculus import Integrate

    kind = cfg["kind"]
    if kind == "rule":
        n, famname = cfg["n"], cfg["fam"]
        nodes, weights = _rule(famname, n)
        exact = famname.endswith("newton-cotes")
        deg = (2 * n - 1) if famname == "gauss-legendre" else (n - 1)
        c = env.reals("c", deg + 1, nice=(-1, 1))
        env.holds("n nodes and n weights", len(nodes) == n and len(weights) == n)
        env.holds("nodes increasing inside [0,1]", all(0 <= x <= 1 for x in nodes) and all(a < b for a, b in zip(nodes[:-1], nodes[1:])))
        if exact:
            env.holds("exact rule is made of Fractions", all(isinstance(x, Fraction) for x in list(nodes) + list(weights)))
            env.holds("weights sum to 1", sum(weights) == 1)
        else:
            env.holds("weights sum to 1 (1e-12)", abs(float(sum(weights)) - 1) <= 1e-12)
            for x in c:
                env.assume((x <= 1) & (x >= -1))
        nodes_q = [F(x) for x in nodes]  # exact rational value of every float
        weights_q = [F(w) for w in weights]
        quad = 0
        for x, w in zip(nodes_q, weights_q):
            val = 0
            for cj in reversed(c):
                val = val * x + cj
            quad = quad + w * val
        true = 0
        for j, cj in enumerate(c):
            true = true + cj * F(1, j + 1)
        if exact:
            env.eq(f"rule integrates every polynomial of degree <= {deg} exactly", quad, true)
        else:
            tol = F(1, 10 ** 12) * (deg + 1)
            d = quad - true
            env.holds(f"rule integrates every polynomial of degree <= {deg} (|c_j|<=1) within 1e-12 per coefficient", (d <= tol) & (-d <= tol))
        return

    if kind == "memo":
        _memo(env, cfg)
        return

    if kind == "scalarG":
        p, mults = cfg["p"], cfg["mults"]
        kv = KV([F(v) for v in cfg["vals"]], mults)
        P = make_points(env, "P", kv.n, 0)
        g = env.reals("g", 2)
        curve = Curve(list(kv.U), P)
        got = Integrate.scalar(curve, lambda u: g[0] + g[1] * u, cfg["method"], p + 2)
        want = 0
        for d in range(kv.nint):
            a, b = kv.vals[d], kv.vals[d + 1]
            piece = kmode.piece(kv, P, d)                     # polynomial of degree p in u
            want = want + (piece * Poly([g[0], g[1]])).integral(a, b)
        env.eq(f"Integrate.scalar(curve, g, {cfg['method']}, p+2) == integral of g(u) C(u)", got, want)
        return

    if kind == "scalarM":
        p, mults = cfg["p"], cfg["mults"]
        kv = KV([F(v) for v in cfg["vals"]], mults)
        P = make_points(env, "P", kv.n, 0)
        for x in P:
            env.assume((x <= 1) & (x >= -1))
        curve = Curve(list(kv.U), P)
        snap = kmode.snapshot(curve)
        got = Integrate.scalar(curve, method=cfg["method"])
        kmode.unchanged(env, curve, snap, "Integrate.scalar")
        want = 0
        for i, Pi in enumerate(P):
            want = want + Pi * ((kv.U[i + p + 1] - kv.U[i]) / (p + 1))
        env.observe("integral", got)
        if cfg["method"].endswith("newton-cotes"):
            env.eq(f"Integrate.scalar({cfg['method']}) == sum_i P_i (u_(i+p+1) - u_i)/(p+1)", got, want)
        else:
            d = got - want
            tol = F(1, 10 ** 9) * max(1, kv.vals[-1] - kv.vals[0])
            env.holds(f"Integrate.scalar({cfg['method']}) == sum_i P_i (u_(i+p+1) - u_i)/(p+1) within 1e-9 for |P_i| <= 1",
                      (d <= tol) & (-d <= tol))
        return

    if kind in ("scalarS", "scalarK"):
        p, mults = cfg["p"], cfg["mults"]
        if kind == "scalarS":
            t = env.ordered("t", len(mults), GAP)
        else:
            t = [F(v) for v in cfg["vals"]]
        kv = KV(t, mults)
        P = make_points(env, "P", kv.n, cfg["dim"])
        curve = Curve(list(kv.U), P)
        snap = kmode.snapshot(curve)
        if kind == "scalarS":
            got = Integrate.scalar(curve, method=cfg["method"])
        else:
            got = Integrate.scalar(curve)
        kmode.unchanged(env, curve, snap, "Integrate.scalar")
        want = None
        for i, Pi in enumerate(P):
            term = Pi * ((kv.U[i + p + 1] - kv.U[i]) / (p + 1))
            want = term if want is None else want + term
        env.observe("integral", got)
        env.eq("Integrate.scalar == sum_i P_i (u_(i+p+1) - u_i)/(p+1)", got, want)
        return

    if kind == "function":
        nn = cfg["nn"]
        t = env.ordered("t", 3, GAP)
        kvobj = KnotVector([t[0], t[0], t[1], t[2], t[2]])
        ca, cb = env.reals("a", nn), env.reals("b", nn)

        def f(u):
            coef = ca if bool(u < t[1]) else cb
            val = 0
            for cj in reversed(coef):
                val = val * u + cj
            return val
        got = Integrate.function(kvobj, f, cfg["method"], nn)
        want = 0
        for coef, (lo, hi) in ((ca, (t[0], t[1])), (cb, (t[1], t[2]))):
            for j, cj in enumerate(coef):
                want = want + cj * (hi ** (j + 1) - lo ** (j + 1)) / (j + 1)
        if cfg["method"] == "closed-newton-cotes":
            # the closed rule samples the break point itself: the integrand must be continuous there
            va = vb = 0
            for cj in reversed(ca):
                va = va * t[1] + cj
            for cj in reversed(cb):
                vb = vb * t[1] + cj
            env.assume(va == vb)
        env.eq(f"Integrate.function integrates per-span polynomials of degree < {nn} exactly", got, want)
        return

    if kind == "lenght":
        segs = cfg["segs"]
        knots = [F(0), F(0)] + [F(k) * F(3, 2) for k in range(1, segs)] + [F(segs) * F(3, 2)] * 2
        V = make_points(env, "V", segs + 1, 2)
        for a, b in zip(V[:-1], V[1:]):
            d = b[0] - a[0]
            env.assume((d >= F(1, 1000)) | (d <= -F(1, 1000)))
        for v in V:
            for x in v:
                env.assume((x <= 10) & (x >= -10))
        curve = Curve(knots, V)
        snap = kmode.snapshot(curve)
        got = Integrate.lenght(curve, None, cfg.get("method"), cfg.get("nn"))
        kmode.unchanged(env, curve, snap, "Integrate.lenght")
        if env.sym:
            want = 0
            for a, b in zip(V[:-1], V[1:]):
                dx, dy = b[0] - a[0], b[1] - a[1]
                want = want + (dx * dx + dy * dy).sqrt()
            d = got - want
            tol = F(1, 10 ** 9) * segs
            # lemma split: every square-root variable is bounded (vertices in [-10,10]^2), then the comparison is linear
            facts = []
            ok = True
            for rv, rad in getattr(env.ctx, "sqrts", {}).values():
                ok &= env.holds("segment length bounded by the diameter of the box", rv <= 30)
                facts += [rv <= 30, rv >= 0]
            if ok:
                env.holds("Integrate.lenght of a polyline is the sum of its segment lengths (1e-9)", (d <= tol) & (-d <= tol),
                          using=facts)
        else:
            import math
            want = sum(math.sqrt(float((b[0] - a[0]) ** 2 + (b[1] - a[1]) ** 2)) for a, b in zip(V[:-1], V[1:]))
            env.holds("Integrate.lenght of a polyline is the sum of its segment lengths (1e-9)", abs(float(got) - want) <= 1e-9 * segs * max(1, want))
        return
    raise AssertionError(kind)
