"""C02  Basis functions obey the Cox-de Boor definition for every index and sub-degree.

Mode S: knot values, u and positive weights are solver variables; degree, multiplicity pattern and
index forms are enumerated.  All sub-degrees j <= p are evaluated in every configuration."""
from __future__ import annotations

from fractions import Fraction

from ..ref import KV, basis_row, divnz
from .. import fam
from ..harness import Unexpected

ID = "C02"
CFG_TIMEOUT_S = {"quick": 300, "thorough": 1500}

META = dict(
    bounds=dict(
        quick="degree 0..3, <=2 distinct interior knots, every multiplicity pattern; all j<=p; index forms int, negative int, "
              "slices (negative start / stop / step, empty, out of range), full; polynomial and rational (symbolic positive weights); u anywhere on the real line",
        thorough="degree 0..5 with <=2 interior knots (all patterns), degree <=3 with 3 interior knots (sampled)",
    ),
    assumptions=[
        "numbers are exact reals (Fraction semantics); float rounding is not modelled",
        "distinct knots are at least 1e-5 apart",
        "weights > 0",
    ],
    outside=["degree >= 6, more than 3 distinct interior knots", "float rounding"],
)


def configs(tier, seed):
    cfgs = []
    if tier == "quick":
        famy = fam.pattern_family(range(0, 4), 2, seed=seed)
    else:
        famy = fam.pattern_family(range(0, 6), 2, seed=seed)
        famy += [c for c in fam.pattern_family(range(0, 4), 3, seed=seed) if len(c[1]) == 5][(seed + 1) % 3::3]
    for k, (p, pat) in enumerate(famy):
        cfgs.append(dict(name=f"S p={p} mults={pat} pol", p=p, mults=pat, rational=False))
        if p <= 2 or (len(pat) <= 3 and p <= 3):  # (degree 0 included)
            cfgs.append(dict(name=f"S p={p} mults={pat} rat", p=p, mults=pat, rational=True))
    cfgs.append(dict(name="index errors", p=2, mults=[3, 1, 3], rational=False, index_errors=True))
    return cfgs


def _ref_table(kv, j, u, d, W):
    row = basis_row(kv, j, u, d)[: kv.n]
    if W is None:
        return row
    den = None
    for N, w in zip(row, W):
        if isinstance(N, int) and N == 0:
            continue
        den = N * w if den is None else den + N * w
    return [0 if (isinstance(N, int) and N == 0) else divnz(N * w, den) for N, w in zip(row, W)]


def body(env, cfg):
    from compmec.nurbs import Function

    p, mults = cfg["p"], cfg["mults"]
    nd = len(mults)
    t = env.ordered("t", nd)
    kv = KV(t, mults)
    n = kv.n
    f = Function(list(kv.U))
    env.holds("degree/npts", f.degree == p and f.npts == n)
    if cfg.get("index_errors"):
        for bad, exc in [((n, p), IndexError), ((-n - 1, p), IndexError), ((0, p + 1), IndexError), ((0, -1), IndexError),
                         (("a", 0), TypeError), ((0, 1.0), TypeError), ((0, 0, 0), IndexError), (1.5, TypeError)]:
            try:
                f[bad]
            except exc:
                continue
            except Exception as e:
                raise Unexpected(f"f[{bad!r}] raised {type(e).__name__} instead of {exc.__name__}")
            raise Unexpected(f"f[{bad!r}] did not raise {exc.__name__}")
        env.holds("invalid indices rejected", True)
        return
    W = None
    if cfg["rational"]:
        W = env.positives("w", n)
        f.weights = W
    u = env.real("u")
    inside = (t[0] <= u) & (u <= t[-1])
    try:
        full = f[:, p](u)
    except ValueError:
        env.holds("ValueError only for a parameter outside [umin, umax]", ~inside)
        return
    env.holds("a value is returned only inside [umin, umax]", inside)
    d = kv.locate(u)
    for j in range(p + 1):
        tab = f[:, j](u)
        env.holds(f"f[:, {j}](u) has npts entries", isinstance(tab, tuple) and len(tab) == n)
        ref = _ref_table(kv, j, u, d, W)
        env.observe(f"table{j}", tab)
        env.eq(f"N_(i,{j})(u) == Cox-de Boor", list(tab), ref)
        # consequences, asked of the library's own values
        tot = 0
        for v in tab:
            tot = tot + v
        env.eq(f"sum_i N_(i,{j})(u) == 1", tot, 1)
        span = kv.span_of(d)
        for i, v in enumerate(tab):
            if not (span - j <= i <= span):
                env.eq(f"N_({i},{j}) vanishes outside its support", v, 0)
        if j <= 2 and W is None:
            for i, v in enumerate(tab):
                if span - j <= i <= span:
                    env.holds(f"N_(i,{j})(u) >= 0", v >= 0)
        # index forms select rows of the same table
        i0 = (j + len(mults)) % n
        env.eq(f"f[{i0},{j}](u)", f[i0, j](u), tab[i0])
        env.eq(f"f[-1,{j}](u)", f[-1, j](u), tab[-1])
        sl = f[1:n:2, j](u)
        env.eq(f"f[1:n:2,{j}](u)", list(sl), list(tab[1:n:2]))
        # any slice selects the rows Python's own slicing selects (negative start / stop / step, empty, out of range)
        slices = [slice(-2, None), slice(None, -1), slice(None, None, -1), slice(None, 0), slice(-n - 3, None), slice(n, None),
                  slice(-1, 0, -2), slice(0, n + 5, 3)]
        for sl in (slices if j == p else slices[j % len(slices)::4]):
            txt = f"{'' if sl.start is None else sl.start}:{'' if sl.stop is None else sl.stop}:{'' if sl.step is None else sl.step}"
            got = f[sl, j](u)
            env.holds(f"f[{txt},{j}](u) has the rows of the Python slice", isinstance(got, tuple) and len(got) == len(tab[sl]))
            if isinstance(got, tuple) and len(got) == len(tab[sl]) and len(got):
                env.eq(f"f[{txt},{j}](u)", list(got), list(tab[sl]))
        # a sequence of nodes gives one column per node
        seq = f[:, j]([u, t[0]])
        env.eq(f"f[:, {j}]([u, umin]) column 0", [row[0] for row in seq], list(tab))
    env.eq("f(u) == f[:, p](u)", list(f(u)), list(full))
    env.eq("f[i](u) == f[i, p](u)", f[n - 1](u), full[n - 1])
    env.eq("f[-2:](u) == f[-2:, p](u)", list(f[-2:](u)), list(full[-2:]))
    env.eq("f[::-1](u) == reversed f[:, p](u)", list(f[::-1](u)), list(full[::-1]))
    if W is None and len(mults) <= 3:
        # the same Function object asked again after its knot vector was changed in place: nothing may be remembered
        a = env.real("a")
        f.knotvector.shift(a)
        env.eq("after f.knotvector.shift(a): f(u + a) == N_i[U](u)", list(f(u + a)), list(full))
        env.eq("after f.knotvector.shift(a): f[:, p](u + a) == N_i[U](u)", list(f[:, p](u + a)), list(full))
        f.knotvector.shift(-a)
        env.eq("shifted back: f(u) == N_i[U](u)", list(f(u)), list(full))
        f.degree = p + 1
        kv_up = KV(t, [m + 1 for m in mults], p + 1)
        env.eq("after f.degree = p + 1: f(u) == Cox-de Boor of the elevated vector", list(f(u)), basis_row(kv_up, p + 1, u, kv_up.locate(u))[: kv_up.n])
