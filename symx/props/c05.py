"""C05  Knot removal is exact when possible, refused otherwise, never silently lossy.

Mode K (concrete Fraction knots, symbolic control points), three harnesses:
  exact   : P = (real knot_insert applied to a symbolic P0): removal must succeed and give back P0;
  none    : tolerance=None with arbitrary symbolic P: always succeeds, interpolates the old curve at the
            remaining knots and both ends;
  band    : arbitrary P (the control points next to the knot symbolic, the others fixed): either success
            with the L2 deviation inside the tolerance bound, or ValueError with the curve unchanged."""
from __future__ import annotations

from fractions import Fraction

import numpy as np

from ..ref import KV
from .. import fam, kmode
from .c01 import make_points
from .c07 import _mixed_points
from .c08 import conc_weights

ID = "C05"
CFG_TIMEOUT_S = {"quick": 400, "thorough": 1800}
F = Fraction
TOLF = F(1e-9)

META = dict(
    bounds=dict(
        quick="concrete vectors: every pattern of degree 1..3 with 1-2 interior knots (sampled), removal of 1..m copies of one knot and of "
              "two knots at once; polynomial (scalar/2-D) and rational (concrete weights); tolerances default, 1e-3, 0, None",
        thorough="all patterns of degree 1..4 with <=2 interior knots and degree<=2 with 3, two value assignments",
    ),
    assumptions=["Fraction knots, exact arithmetic", "rational curves carry concrete positive weights",
                 "band harness: the two control points next to the removed knot are symbolic, the others fixed rationals "
                 "(the tolerance test is a quadratic inequality; with more symbolic points nlsat does not decide it in time)"],
    outside=["symbolic knot values", "float knots (see C16)", "degree >= 5"],
)


def configs(tier, seed):
    cfgs = []
    if tier == "quick":
        famy = [c for c in fam.pattern_family(range(1, 4), 2, seed=seed) if len(c[1]) >= 3]
        famy = [c for i, c in enumerate(famy) if len(c[1]) == 3 or (i + seed) % 3 == 0]
    else:
        famy = [c for c in fam.pattern_family(range(1, 5), 2, seed=seed) if len(c[1]) >= 3]
        famy += [c for c in fam.pattern_family(range(1, 3), 3, seed=seed) if len(c[1]) == 5]
    for i, (p, pat) in enumerate(famy):
        for rep in range(1 if tier == "quick" else 2):
            vals = fam.concrete_values(len(pat), seed + rep, i)
            base = dict(p=p, mults=pat, vals=[str(v) for v in vals])
            tag = f"p={p} mults={pat} vals={base['vals']}"
            for j in range(1, len(pat) - 1):
                m = pat[j]
                # exact: insert t copies of knot j into the vector with multiplicity m - t, then remove them
                for t in sorted({1, m}):
                    cfgs.append(dict(name=f"exact {tag} knot {j} x{t}", kind="exact", j=j, t=t, rat=False, dim=(i + j) % 2 * 2, **base))
                    if (i + j + t + seed) % 2 == 0:
                        cfgs.append(dict(name=f"exact {tag} knot {j} x{t} tolerance=0", kind="exact", j=j, t=t, rat=False, dim=0, tol0=True, **base))
                    if p <= 2 and t == 1:
                        cfgs.append(dict(name=f"exact {tag} knot {j} x{t} rat", kind="exact", j=j, t=t, rat=True, dim=0, **base))
                for t in sorted({1, m}):
                    cfgs.append(dict(name=f"none {tag} knot {j} x{t}", kind="none", j=j, t=t, rat=False, dim=0, **base))
                    for tol in ("default", "1e-3", "0"):
                        if tol != "default" and (i + j + seed + (tol == "0")) % 2:
                            continue
                        cfgs.append(dict(name=f"band {tag} knot {j} x{t} tol={tol}", kind="band", j=j, t=t, tol=tol, rat=False, dim=0, **base))
            if len(pat) == 4:
                cfgs.append(dict(name=f"exact {tag} both knots", kind="exact2", rat=False, dim=0, **base))
    cfgs.append(dict(name="absent knot / end knot rejected", kind="reject"))
    return cfgs


def _tol(cfg):
    return {"default": F(1e-9), "1e-3": F(1e-3), "0": F(0)}[cfg["tol"]]


def body(env, cfg):
    from compmec.nurbs import Curve

    if cfg["kind"] == "reject":
        P = env.reals("P", 4)
        c = Curve([F(0), F(0), F(0), F(1, 2), F(1), F(1), F(1)], P)
        snap = kmode.snapshot(c)
        for bad in ([F(1, 3)], [F(0)], [F(1)], [F(1, 2), F(1, 2)], [F(2)]):
            try:
                c.knot_remove(bad)
            except ValueError:
                kmode.unchanged(env, c, snap, f"knot_remove({bad})")
                continue
            env.fail(f"knot_remove({bad}) (absent / end knot / too many copies) did not raise ValueError")
        return

    p, mults = cfg["p"], cfg["mults"]
    vals = [F(v) for v in cfg["vals"]]
    kv = KV(vals, mults)
    dim = cfg["dim"]

    if cfg["kind"] in ("exact", "exact2"):
        # start from the vector with the knot(s) (partly) absent, insert with the real knot_insert, remove again
        if cfg["kind"] == "exact":
            j, t = cfg["j"], cfg["t"]
            m0 = [m - t if k == j else m for k, m in enumerate(mults)]
            nodes = [vals[j]] * t
        else:
            m0 = [mults[0], mults[1] - 1, mults[2] - 1, mults[3]]
            nodes = [vals[1], vals[2]]
        keep = [(v, m) for v, m in zip(vals, m0) if m > 0]
        kv0 = KV([v for v, m in keep], [m for v, m in keep], p)
        P0 = make_points(env, "P", kv0.n, dim)
        W0 = conc_weights(kv0.n, 5) if cfg["rat"] else None
        c = Curve(list(kv0.U), P0, W0)
        c.knot_insert(list(nodes))
        env.holds("setup: knot_insert produced the full vector", list(c.knotvector) == list(kv.U))
        try:
            if cfg.get("tol0"):
                c.knot_remove(list(nodes), 0)  # zero deviation is within every tolerance, 0 included
            else:
                c.knot_remove(list(nodes))
        except ValueError as e:
            env.fail(f"knot_remove refused knots that are exactly removable ({str(e)[:80]})")
            return
        env.holds("knot vector is the old one minus the nodes", list(c.knotvector) == list(kv0.U))
        env.eq("removal undoes the insertion exactly: control points", list(c.ctrlpoints), list(P0))
        if W0 is not None:
            env.holds("weights present after removal", c.weights is not None)
            if c.weights is not None:
                kmode.same_function(env, "rational: same function after insert+remove", kv0, P0, W0, kv0, list(c.ctrlpoints), list(c.weights))
        return

    j, t = cfg["j"], cfg["t"]
    nodes = [vals[j]] * t
    m1 = [m - t if k == j else m for k, m in enumerate(mults)]
    keep = [(v, m) for v, m in zip(vals, m1) if m > 0]
    kv1 = KV([v for v, m in keep], [m for v, m in keep], p)

    if cfg["kind"] == "none":
        P = make_points(env, "P", kv.n, dim)
        c = Curve(list(kv.U), P)
        c.knot_remove(list(nodes), None)
        env.holds("tolerance=None: knot vector is the old one minus the nodes", list(c.knotvector) == list(kv1.U))
        Q = list(c.ctrlpoints)
        env.holds("tolerance=None: number of control points", len(Q) == kv1.n)
        u = None
        for z in kv1.vals:
            dn, do = kmode.interval_of(kv1, z), kmode.interval_of(kv, z)
            if z == kv1.vals[-1]:
                dn, do = kv1.nint - 1, kv.nint - 1
            newv = kmode.piece(kv1, Q, dn)(z)
            oldv = kmode.piece(kv, P, do)(z)
            if z != kv1.vals[-1] and z != kv1.vals[0] and mults[vals.index(z)] == p + 1:
                continue  # discontinuous knot of the old curve: no single value to keep
            env.eq(f"tolerance=None: passes through the old curve at the remaining knot {z}", newv, oldv)
        return

    # band
    span = kv.span_of(j) - mults[j]
    sym = {max(0, min(kv.n - 1, span)), max(0, min(kv.n - 1, span + 1))}
    P = _mixed_points(env, "P", kv.n, sym, j)
    c = Curve(list(kv.U), P)
    snap = kmode.snapshot(c)
    tol = _tol(cfg)
    try:
        if cfg["tol"] == "default":
            c.knot_remove(list(nodes))
        elif cfg["tol"] == "0":
            c.knot_remove(list(nodes), 0)  # only an exact removal may be accepted
        else:
            c.knot_remove(list(nodes), 1e-3)
    except ValueError:
        kmode.unchanged(env, c, snap, "refused knot_remove")
        # a refusal is only legitimate when the knots are not exactly removable
        env.note("refused")
        return
    env.holds("knot vector is the old one minus the nodes", list(c.knotvector) == list(kv1.U))
    Q = list(c.ctrlpoints)
    L = vals[-1] - vals[0]
    bound = 2 * tol * max(1, L)
    for k, e in enumerate(kmode.l2_sq(kv, P, kv1, Q)):
        env.holds(f"accepted removal: integral of squared deviation <= 2*tol*max(1,L) (coord {k})", e <= bound)
