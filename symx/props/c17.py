"""C17  KnotVector union / intersection give the common refinement / common coarsening.

Mode S: both vectors draw their knots from one pool of symbolic values t0 < ... < tk (shared ends);
degrees and the multiplicity of every pool value in U and in V (0 = absent) are enumerated."""
from __future__ import annotations

import itertools

from ..ref import KV
from .c03 import check_state, same_objects, GAP

ID = "C17"
CFG_TIMEOUT_S = {"quick": 300, "thorough": 1500}

META = dict(
    bounds=dict(
        quick="degrees p,q in 0..2, pool of <=2 interior values, every multiplicity 0..deg+1 of every pool value in U and in V",
        thorough="degrees p,q in 0..3, pool of <=2 interior values (all), 3 interior values for p,q<=1",
    ),
    assumptions=["numbers are exact reals", "distinct knots at least 1e-5 apart",
                 "& is specified (per-knot minimum) for equal degrees only"],
    outside=["pools with more than 3 interior values", "degree >= 4"],
)


def configs(tier, seed):
    cfgs = []
    maxdeg = 2 if tier == "quick" else 3
    for p in range(maxdeg + 1):
        for q in range(maxdeg + 1):
            for k in (0, 1, 2, 3):
                if k == 3 and (tier == "quick" or max(p, q) > 1):
                    continue
                for mu in itertools.product(range(0, p + 2), repeat=k):
                    cfgs.append(dict(name=f"p={p} q={q} U={list(mu)}", p=p, q=q, k=k, mu=list(mu)))
    return cfgs


def _kv(t, deg, ms):
    vals = [t[0]] + [v for v, m in zip(t[1:-1], ms) if m > 0] + [t[-1]]
    mm = [deg + 1] + [m for m in ms if m > 0] + [deg + 1]
    return KV(vals, mm, deg)


def body(env, cfg):
    from compmec.nurbs import KnotVector

    p, q, k, mu = cfg["p"], cfg["q"], cfg["k"], cfg["mu"]
    t = env.ordered("t", k + 2, GAP)
    refU = _kv(t, p, mu)
    if refU.n <= p:
        return
    r = max(p, q)
    for mv in itertools.product(range(0, q + 2), repeat=k):
        refV = _kv(t, q, mv)
        U = KnotVector(list(refU.U))
        V = KnotVector(list(refV.U))
        bU, bV = tuple(U), tuple(V)
        tag = f"V={list(mv)}"
        # union
        ms = []
        for a, b in zip(mu, mv):
            cand = [m + r - d for m, d in ((a, p), (b, q)) if m > 0]
            ms.append(max(cand) if cand else 0)
        exp = _kv(t, r, ms)
        UV = U | V
        check_state(env, UV, exp, f"U|V {tag}")
        VU = V | U
        check_state(env, VU, exp, f"V|U {tag}")
        same_objects(env, bU, U, f"| left {tag}")
        same_objects(env, bV, V, f"| right {tag}")
        if list(mv) == list(mu) and p == q:
            check_state(env, U | U, refU, "U|U")
        W = KnotVector(list(refU.U))
        W |= V
        check_state(env, W, exp, f"U|=V {tag}")
        check_state(env, UV | U, exp, f"(U|V)|U {tag}")
        # intersection, equal degrees
        if p == q:
            expi = _kv(t, p, [min(a, b) for a, b in zip(mu, mv)])
            if expi.n > p:
                check_state(env, U & V, expi, f"U&V {tag}")
                check_state(env, V & U, expi, f"V&U {tag}")
                W = KnotVector(list(refU.U))
                W &= V
                check_state(env, W, expi, f"U&=V {tag}")
                same_objects(env, bU, U, f"& left {tag}")
                same_objects(env, bV, V, f"& right {tag}")
    # different intervals
    U = KnotVector(list(refU.U))
    lo_, hi_ = t[0], t[-1]
    mid_ = (lo_ + hi_) / 2
    ends = [(lo_, hi_ + 1), (lo_, mid_), (mid_, hi_), ((3 * lo_ + hi_) / 4, (lo_ + 3 * hi_) / 4), (lo_ - 1, hi_ + 1), (lo_ - 1, hi_)]
    others = [KnotVector([x + 1 for x in refU.U])] + [KnotVector([a] * (q + 1) + [b] * (q + 1)) for a, b in ends]
    for other in others:
        bU, bO = tuple(U), tuple(other)
        for op, fn in (("U | other", lambda: U | other), ("other | U", lambda: other | U), ("U & other", lambda: U & other),
                       ("other & U", lambda: other & U)):
            try:
                fn()
            except ValueError:
                same_objects(env, bU, U, f"rejected {op}")
                same_objects(env, bO, other, f"rejected {op}")
                continue
            env.fail(f"{op} of vectors on different intervals (one contained in, containing, or overlapping the other) did not raise ValueError")
    env.holds("different intervals rejected", True)
