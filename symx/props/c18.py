"""C18  Generators and affine maps produce exactly the advertised knot vectors.

concrete part (no numeric input exists): bezier / integer / uniform / random for all (p, n) in the bound
  and cls in int, float, Fraction, compared with their specification;
solver part, mode S: weight(p, w) with symbolic positive w; shift / scale / normalize on symbolic
  vectors; reparametrisation invariance of basis functions and curves through the real evaluators;
solver part, FP mode: normalize() on IEEE doubles maps onto exactly [0, 1]."""
from __future__ import annotations

from fractions import Fraction

import numpy as np

from ..ref import KV
from .. import fam
from .c01 import make_points
from .c03 import check_state, GAP

ID = "C18"
CFG_TIMEOUT_S = {"quick": 600, "thorough": 1800}

META = dict(
    technique='generators: plain enumeration (no numeric input exists); weight()/affine maps/invariance: symbolic execution + z3 (QF_NRA); float normalize(): concolic execution with z3 Float64 (QF_FP) query per seed path',
    bounds=dict(
        quick="generators: degree 0..4, npts <= 12 (uniform/float up to 64), cls int/float/Fraction (plain enumeration, no solver: "
              "they have no numeric input); weight(): degree 0..3, 1..4 symbolic weights; affine maps and invariance: "
              "degree 0..3, <=2 interior knots (sampled patterns), symbolic t, u, s>0, a, P; FP: normalize() of [a,a,b,b] and "
              "[a,b] over all doubles 2^-500 <= |x| <= 2^500 taking the seed path",
        thorough="generators up to npts 40 (uniform up to 400 for float, 120 for int/Fraction); invariance with all patterns of degree <= 3",
    ),
    assumptions=["real arithmetic in the S-mode parts; IEEE-754 binary64 round-to-nearest in the FP part",
                 "np.random.randint replaced by fixed draws (including the extreme draws 1 and 999)",
                 "distinct knots at least 1e-5 apart (also after the affine map)"],
    outside=["the random number generator itself", "FP claims are per seed path (all doubles taking the same branches)",
             "rounding of interior knots"],
)


def configs(tier, seed):
    cfgs = []
    nmax = 12 if tier == "quick" else 40
    for cls in ("int", "float", "Fraction"):
        cfgs.append(dict(name=f"generators cls={cls}", kind="gen", cls=cls, pmax=4, nmax=nmax,
                         umax=64 if tier == "quick" else (400 if cls == "float" else 120)))
    cfgs.append(dict(name="random stubbed draws", kind="random"))
    for p in range(0, 4):
        for k in range(1, 5):
            cfgs.append(dict(name=f"weight p={p} k={k}", kind="weight", p=p, k=k))
    famy = fam.pattern_family(range(0, 4), 2, seed=seed)
    if tier == "quick":
        famy = [c for i, c in enumerate(famy) if len(c[1]) <= 3 or (i + seed) % 4 == 0]
    for i, (p, pat) in enumerate(famy):
        cfgs.append(dict(name=f"invariance p={p} mults={pat}", kind="inv", p=p, mults=pat, dim=(i % 2) * 2))
    # int-typed vectors moved by arbitrary (symbolic) real shifts and scales: the image is the exact affine image
    for k, ivec in enumerate([[0, 0, 1, 2, 2], [0, 1, 3], [-2, -2, -2, 0, 1, 1, 1], [0, 0, 0, 0, 5, 5, 5, 5]]):
        cfgs.append(dict(name=f"int vector {ivec} shifted / scaled", kind="intaffine", vec=ivec))
    cfgs.append(dict(name="weight() with weights of mixed number classes", kind="weightmixed"))
    cfgs.append(dict(name="fp normalize [a,a,b,b]", kind="fp", shape="bez1", seeds=[[1.0, 3.0], [-7.5, 0.3]]))
    cfgs.append(dict(name="fp normalize [a,b]", kind="fp", shape="bez0", seeds=[[0.1, 49.0]]))
    return cfgs


CLS = {"int": int, "float": float, "Fraction": Fraction}


def _gen(env, cfg):
    from compmec.nurbs import GeneratorKnotVector as G
    cls = CLS[cfg["cls"]]
    bad = []
    for p in range(cfg["pmax"] + 1):
        kv = G.bezier(p, cls)
        if list(kv) != [cls(0)] * (p + 1) + [cls(1)] * (p + 1) or kv.degree != p or kv.npts != p + 1:
            bad.append(f"bezier({p})")
        if not all(type(x) is cls for x in kv):
            bad.append(f"bezier({p}) type")
        for n in range(p + 1, (cfg["umax"] if p <= 1 else cfg["nmax"]) + 1):
            kv = G.integer(p, n, cls)
            exp = [0] * p + list(range(n - p + 1)) + [n - p] * p
            if list(kv) != exp or kv.degree != p or kv.npts != n or not all(type(x) is cls for x in kv):
                bad.append(f"integer({p},{n})")
            kv = G.uniform(p, n, cls)
            N = n - p
            if kv.degree != p or kv.npts != n or len(kv) != n + p + 1:
                bad.append(f"uniform({p},{n}) shape")
                continue
            if not (kv[0] == 0 and kv[-1] == 1):
                bad.append(f"uniform({p},{n},{cfg['cls']}) interval is [{kv[0]!r}, {kv[-1]!r}] not exactly [0, 1]")
            inner = list(kv)[p:n + 1]
            if cls is Fraction:
                if inner != [Fraction(i, N) for i in range(N + 1)] or not all(type(x) is Fraction for x in kv):
                    bad.append(f"uniform({p},{n},Fraction) not the exact fractions i/N")
            else:
                if any(abs(x - i / N) > 1e-12 for i, x in enumerate(inner)) or any(b <= a for a, b in zip(inner[:-1], inner[1:])):
                    bad.append(f"uniform({p},{n}) spacing")
            if list(kv)[:p + 1] != [kv[0]] * (p + 1) or list(kv)[n:] != [kv[-1]] * (p + 1):
                bad.append(f"uniform({p},{n}) not clamped")
    env.holds("bezier/integer/uniform produce the advertised vectors: " + "; ".join(bad[:4]), not bad)


def _random(env, cfg):
    from compmec.nurbs import GeneratorKnotVector as G
    from compmec.nurbs import knotspace
    draws = {1: [[1], [999], [500]], 2: [[1, 999], [999, 1], [3, 3], [998, 999]], 3: [[1, 1, 999], [7, 11, 13], [999, 999, 999]],
             5: [[1, 2, 3, 4, 5], [999, 1, 999, 1, 999]]}
    bad = []
    for k, ds in draws.items():
        for dr in ds:
            for p in (0, 1, 3):
                for cls in (float, Fraction):
                    n = p + k
                    old = np.random.randint
                    np.random.randint = lambda lo, hi, size, dr=dr: np.array(dr)
                    try:
                        kv = G.random(p, n, cls)
                    finally:
                        np.random.randint = old
                    tot = sum(dr)
                    acc = [0]
                    for w in dr:
                        acc.append(acc[-1] + w)
                    if kv.degree != p or kv.npts != n:
                        bad.append(f"random({p},{n}) shape")
                        continue
                    if not all(type(x) is cls for x in kv):
                        bad.append(f"random({p},{n},{cls.__name__}) draw {dr}: knots of type {sorted({type(x).__name__ for x in kv})}")
                    if not (kv[0] == 0 and kv[-1] == 1):
                        bad.append(f"random({p},{n},{cls.__name__}) draw {dr}: interval [{kv[0]!r}, {kv[-1]!r}] not exactly [0, 1]")
                    inner = list(kv)[p:n + 1]
                    if cls is Fraction:
                        if inner != [Fraction(a, tot) for a in acc]:
                            bad.append(f"random({p},{n},Fraction) draw {dr} not exact")
                    elif any(abs(x - a / tot) > 1e-12 for x, a in zip(inner, acc)):
                        bad.append(f"random({p},{n}) draw {dr} spacing")
    env.holds("random() = normalised prefix sums of the draw, interval exactly [0,1]: " + "; ".join(bad[:3]), not bad)


def _weight(env, cfg):
    from compmec.nurbs import GeneratorKnotVector as G
    p, k = cfg["p"], cfg["k"]
    w = env.reals("w", k, nice=(Fraction(1, 10), 10))
    for x in w:
        env.assume(x >= GAP)
    kv = G.weight(p, list(w))
    vals = [0]
    for x in w:
        vals.append(vals[-1] + x)
    check_state(env, kv, KV(vals, [p + 1] + [1] * (k - 1) + [p + 1], p), "weight")
    kv.normalize()
    tot = vals[-1]
    for a, b in zip(vals[:-1], vals[1:]):
        env.assume((b - a) >= GAP * tot)
    check_state(env, kv, KV([v / tot for v in vals], [p + 1] + [1] * (k - 1) + [p + 1], p), "weight+normalize")
    env.eq("normalize: interval exactly [0,1]", [kv[0], kv[-1]], [0, 1])


def _inv(env, cfg):
    from compmec.nurbs import KnotVector, Function, Curve
    p, mults = cfg["p"], cfg["mults"]
    t = env.ordered("t", len(mults), GAP)
    ref = KV(t, mults)
    s = env.real("s", nice=(Fraction(1, 4), 4))
    a = env.real("a")
    u = env.real("u")
    env.assume(s > 0)
    for x, y in zip(t[:-1], t[1:]):
        env.assume(s * (y - x) >= GAP)
    env.assume((t[0] <= u) & (u <= t[-1]))
    U = KnotVector(list(ref.U))
    V = KnotVector(list(ref.U))
    V.scale(s)
    V.shift(a)
    check_state(env, V, KV([x * s + a for x in t], mults), "s*U+a")
    f, g = Function(U), Function(V)
    env.eq("N_i[s*U+a](s*u+a) == N_i[U](u)", list(g(s * u + a)), list(f(u)))
    P = make_points(env, "P", ref.n, cfg["dim"])
    c1, c2 = Curve(U, P), Curve(V, P)
    env.eq("C[s*U+a](s*u+a) == C[U](u)", c2(s * u + a), c1(u))
    W = KnotVector(list(ref.U))
    W.normalize()
    L = t[-1] - t[0]
    for x, y in zip(t[:-1], t[1:]):
        env.assume((y - x) >= GAP * L)
    env.eq("normalize is exactly [0,1]", [W[0], W[-1]], [0, 1])
    env.eq("N_i[normalize(U)]((u-umin)/L) == N_i[U](u)", list(Function(W)((u - t[0]) / L)), list(f(u)))


def _weightmixed(env, cfg):
    """weight() with weights of mixed number classes: the knots are the exact partial sums"""
    from compmec.nurbs import GeneratorKnotVector as G
    for p, w in [(1, [1, Fraction(1, 2), 2]), (2, [2, Fraction(3, 4)]), (0, [1, Fraction(1, 3), 1, Fraction(5, 2)]), (1, [Fraction(1, 2), 1, 3]),
                 (1, [1, 0.5, 2])]:
        kv = G.weight(p, list(w))
        vals = [0]
        for x in w:
            vals.append(vals[-1] + x)
        exp = [vals[0]] * (p + 1) + vals[1:-1] + [vals[-1]] * (p + 1)
        env.holds(f"weight({p}, {w}): knots are the partial sums {exp}", list(kv) == exp and kv.degree == p)


def _intaffine(env, cfg):
    from compmec.nurbs import KnotVector
    vec = list(cfg["vec"])
    a = env.real("a")
    s = env.real("s", nice=(Fraction(1, 4), 4))
    env.assume(s * 100000 >= 1)
    distinct = sorted(set(vec))
    mults = [vec.count(v) for v in distinct]
    for how in ("shift", "+=", "scale", "*=", "+"):
        V = KnotVector(list(vec))
        if how == "shift":
            V.shift(a)
            img = [v + a for v in distinct]
        elif how == "+=":
            V += a
            img = [v + a for v in distinct]
        elif how == "+":
            V = V + a
            img = [v + a for v in distinct]
        elif how == "scale":
            V.scale(s)
            img = [v * s for v in distinct]
        else:
            V *= s
            img = [v * s for v in distinct]
        check_state(env, V, KV(img, mults, V.degree), f"int vector, {how}")
    for val in (Fraction(1, 2), Fraction(-7, 3), 3):
        V = KnotVector(list(vec))
        V.shift(val)
        env.holds(f"shift({val}) of an int vector is the exact image", list(V) == [v + val for v in vec])
        V = KnotVector(list(vec))
        V.scale(abs(val))
        env.holds(f"scale({abs(val)}) of an int vector is the exact image", list(V) == [v * abs(val) for v in vec])


def _fp_build(cfg, a, b):
    if cfg["shape"] == "bez1":
        return [a, a, b, b]
    return [a, b]


def _fp(env, cfg):
    from compmec.nurbs import KnotVector
    if not env.sym:
        a, b = float(env.inputs.get("fa", Fraction(1))), float(env.inputs.get("fb", Fraction(3)))
        kv = KnotVector(_fp_build(cfg, a, b))
        kv.normalize()
        env.holds(f"normalize() of doubles maps onto exactly [0,1] (got [{kv[0]!r}, {kv[-1]!r}] for a={a!r}, b={b!r})",
                  kv[0] == 0.0 and kv[-1] == 1.0)
        return
    import z3
    from .. import fp
    for sa, sb in cfg["seeds"]:
        path = fp.FPath()
        fp.FPath.cur = path
        try:
            a, b = fp.SF.var("fa", sa), fp.SF.var("fb", sb)
            kv = KnotVector(_fp_build(cfg, a, b))
            kv.normalize()
            first, last = kv[0], kv[-1]
        finally:
            fp.FPath.cur = None
        lo, hi = fp.fpval(2.0 ** -500), fp.fpval(2.0 ** 500)
        region = [z3.Not(z3.fpIsNaN(a.e)), z3.Not(z3.fpIsNaN(b.e)), z3.fpLT(a.e, b.e)]
        for x in (a, b):
            region.append(z3.Or(z3.fpIsZero(x.e), z3.And(z3.fpLEQ(lo, z3.fpAbs(x.e)), z3.fpLEQ(z3.fpAbs(x.e), hi))))
        first_e = fp.SF.lift(first).e
        last_e = fp.SF.lift(last).e
        neg = z3.Not(z3.And(z3.fpEQ(first_e, fp.fpval(0.0)), z3.fpEQ(last_e, fp.fpval(1.0))))
        r, model, dt = fp.fp_query(region, path.conds, neg, timeout_s=400)
        env.note(f"FP query seed=({sa},{sb}) comparisons={len(path.conds)} -> {r} in {dt:.1f}s")
        if r == "sat":
            env.inject("fa", model["fa"])
            env.inject("fb", model["fb"])
            env.fail("normalize() of doubles does not map onto exactly [0,1]")
            return
        env.holds("normalize() of doubles maps onto exactly [0,1] (FP query decided)", r == "unsat",
                  "solver returned unknown")


def body(env, cfg):
    {"gen": _gen, "random": _random, "weight": _weight, "inv": _inv, "intaffine": _intaffine, "weightmixed": _weightmixed, "fp": _fp}[cfg["kind"]](env, cfg)
