"""C20  Intersection returns exactly the parameter pairs where the curves meet.

Mode K, straight segments / polylines: pairs of concrete degree-1 curves, the second one translated by
a vector with one symbolic component (the other one fixed).  advanced.py runs through the shims of symx.shims; concrete replays run the
untouched module on floats.  Separately, with fully symbolic end points: the bounding-box pre-test
never rejects two segments that cross."""
from __future__ import annotations

from fractions import Fraction

import numpy as np

from .. import kmode, shims

ID = "C20"
CFG_TIMEOUT_S = {"quick": 900, "thorough": 2400}
MAX_PATHS = 20000
CONCRETE_WATCHDOG_S = 30
F = Fraction

META = dict(
    technique='symbolic execution of advanced.py through shims with one symbolic translation component; z3 obligations per path; bounding-box lemma with 8 symbolic coordinates',
    bounds=dict(
        quick="5 pairs of concrete segments / 2-segment polylines (crossing, touching, parallel, disjoint; the cheap 14 of their 20 "
              "translation variants) under a translation "
              "with one symbolic component in [-3,3] and the other fixed (0, 1/3, 1/2); bounding-box lemma with 8 symbolic coordinates",
        thorough="10 pairs including oblique crossings and 2x2-segment polylines, all four translation variants each",
    ),
    assumptions=["degree-1 operands with concrete rational vertices; real arithmetic stands in for float64",
                 "shims: advanced.set -> list-backed set, advanced.np -> proxy (object arrays, exact 2x2 det/solve, exact norm)",
                 "meeting means |A(t)-B(u)| <= 1e-6; a crossing is required to be returned when it is transversal and at least 1e-3 inside "
                 "both parameter intervals"],
    outside=["curved / rational operands, overlapping collinear segments", "float64 rounding and LAPACK behaviour"],
)

PAIRS = [
    ([(0, 0), (2, 0)], [0, 1], [(1, -1), (1, 1)], [0, 1]),
    ([(0, 0), (2, 2)], [0, 2], [(0, 2), (2, 0)], [0, 1]),
    ([(0, 0), (1, 0)], [0, 1], [(0, 1), (1, 1)], [0, 1]),
    ([(0, 0), (2, 0), (2, 2)], [0, 1, 2], [(1, -1), (1, 1)], [0, 1]),
    ([(0, 0), (3, 1)], [1, 2], [(1, 2), (2, -1)], [-1, 1]),
    ([(0, 0), (2, 0)], [0, 1], [(0, -1), (2, 1), (4, -1)], [0, 1, 2]),
    ([(0, 0), (2, 0), (2, 2)], [0, 1, 2], [(0, 1), (3, 1), (3, -1)], [0, 1, 2]),
    ([(0, 0), (4, 0)], [0, 4], [(1, -1), (1, 1), (3, 1), (3, -1)], [0, 1, 2, 3]),
    ([(-1, -1), (1, 1)], [0, 1], [(-1, 1), (1, -1)], [0, F(1, 2)]),
    ([(0, 0), (1, 2), (2, 0)], [0, 1, 2], [(0, 1), (2, 1)], [0, 1]),
]


def configs(tier, seed):
    cfgs = []
    fam_ = PAIRS
    for k, (VA, KA, VB, KB) in enumerate(fam_):
        base = dict(kind="translate", floats=True, VA=[[str(F(a)), str(F(b))] for a, b in VA], KA=[str(F(x)) for x in KA],
                    VB=[[str(F(a)), str(F(b))] for a, b in VB], KB=[str(F(x)) for x in KB])
        # one symbolic translation component at a time (two at once: nlsat does not finish on the conjunctions of
        # tiny-disk conditions |start - solution| < 1e-9 that the sixteen Newton starts produce)
        for fixed in (("dy", "0"), ("dy", "1/3"), ("dx", "0"), ("dx", "1/2")):
            # measured cost: oblique pairs take minutes per configuration (every path re-runs 16 Newton searches)
            slow = (k == 1 and fixed != ("dy", "0")) or k == 4 or (k == 5 and fixed[0] == "dy") or k >= 6
            if tier == "quick" and slow:
                continue
            if (k, fixed) in ((1, ("dy", "1/3")), (1, ("dx", "1/2")), (4, ("dx", "1/2")), (8, ("dx", "1/2"))):
                continue  # did not finish within 40 minutes (hundreds of clamping regions, each a full re-execution): not claimed
            cfgs.append(dict(name=f"pair{k} translated, {fixed[0]}={fixed[1]}", fixed=list(fixed), **base))
    # a segment that passes through an interior vertex of a polyline for every value of the translation: the crossing is
    # found from both adjacent pieces and must still be reported once
    cfgs.append(dict(name="crossing at a vertex, dy=0", kind="translate", floats=True, fixed=["dy", "0"],
                     VA=[["0", "0"], ["1.3", "2.1"], ["2.9", "3.7"]], KA=["0", "1", "2"],
                     VB=[["-0.5", "2.1"], ["3.1", "2.1"]], KB=["0", "1"], dxrange=["-1/2", "1/2"], vertex=True))
    # a self-crossing polyline whose double point lies on the segment for every value of the translation: two crossings
    # share the parameter on B and must both be returned
    cfgs.append(dict(name="double point of A on B, dy=0", kind="translate", floats=True, fixed=["dy", "0"],
                     VA=[["0", "0"], ["2", "2"], ["2", "0"], ["0", "2"]], KA=["0", "1", "2", "3"],
                     VB=[["-1", "1"], ["3", "1"]], KB=["0", "1"], dxrange=["-1/4", "1/4"]))
    # the last point of A lies in the interior of B's segment for every value of the translation (a T-junction): the curves meet
    # there, at the very end of A's parameter interval
    cfgs.append(dict(name="end point of A on B, dy=0", kind="translate", floats=True, fixed=["dy", "0"],
                     VA=[["0", "0"], ["2", "0"], ["2", "2"]], KA=["0", "1", "2"],
                     VB=[["1", "2"], ["3", "2"]], KB=["0", "1"], dxrange=["-1/2", "1/2"], endpoint=["2", "1/2", "-1/2"]))
    cfgs.append(dict(name="start point of A on B, dy=0", kind="translate", floats=True, fixed=["dy", "0"],
                     VA=[["2", "2"], ["2", "0"], ["0", "0"]], KA=["1", "2", "3"],
                     VB=[["1", "2"], ["3", "2"]], KB=["0", "1"], dxrange=["-1/2", "1/2"], endpoint=["1", "1/2", "-1/2"]))
    # both curves start at the same point, at parameter 0 of both (the pair (0, 0))
    cfgs.append(dict(name="common start point at parameters (0, 0)", kind="translate", floats=True, fixed=["dy", "0"],
                     VA=[["0", "0"], ["2", "0"], ["2", "2"]], KA=["0", "1", "2"], VB=[["0", "0"], ["0", "2"], ["-2", "2"]], KB=["0", "1", "2"],
                     dxrange=["0", "0"], endpoint=["0", "0", "0"]))
    # long parameter intervals (one knot span of length 10, a negative start): the answer may not depend on the parametrisation
    cfgs.append(dict(name="long parameter intervals, dy=0", kind="translate", floats=True, fixed=["dy", "0"],
                     VA=[["0", "0"], ["2", "0"]], KA=["0", "10"], VB=[["1", "-1"], ["1", "1"]], KB=["-7", "3"], dxrange=["-1/2", "1/2"]))
    cfgs.append(dict(name="long parameter intervals, polyline, dx=0", kind="translate", floats=True, fixed=["dx", "0"],
                     VA=[["0", "0"], ["2", "0"], ["2", "2"]], KA=["0", "5", "13"], VB=[["1", "-1"], ["1", "1"]], KB=["0", "8"]))
    cfgs.append(dict(name="bounding boxes never reject crossing segments", kind="box"))
    return cfgs


def polyline(Curve, V, K, floats):
    U = [K[0]] + list(K) + [K[-1]]
    return Curve(U, [np.array(v, dtype=float if floats else object) for v in V])


def seg_eval(V, K, t):
    s = len(K) - 2
    for i in range(len(K) - 2):
        if bool(t < K[i + 1]):
            s = i
            break
    lam = (t - K[s]) / (K[s + 1] - K[s])
    return [V[s][0] + lam * (V[s + 1][0] - V[s][0]), V[s][1] + lam * (V[s + 1][1] - V[s][1])]


def body(env, cfg):
    from compmec.nurbs import Curve
    from compmec.nurbs import advanced

    if cfg["kind"] == "box":
        a = [env.real(n, nice=(-3, 3)) for n in ("a0x", "a0y", "a1x", "a1y")]
        b = [env.real(n, nice=(-3, 3)) for n in ("b0x", "b0y", "b1x", "b1y")]
        A0, A1, B0, B1 = (a[0], a[1]), (a[2], a[3]), (b[0], b[1]), (b[2], b[3])

        def orient(p, q, r):
            return (q[0] - p[0]) * (r[1] - p[1]) - (q[1] - p[1]) * (r[0] - p[0])
        o1, o2, o3, o4 = orient(A0, A1, B0), orient(A0, A1, B1), orient(B0, B1, A0), orient(B0, B1, A1)
        crossing = (((o1 > 0) & (o2 < 0)) | ((o1 < 0) & (o2 > 0))) & (((o3 > 0) & (o4 < 0)) | ((o3 < 0) & (o4 > 0)))
        ok = advanced.Intersection._inse_retangle([np.array(A0, dtype=object), np.array(A1, dtype=object)],
                                                  [np.array(B0, dtype=object), np.array(B1, dtype=object)])
        if ok:
            env.holds("box test accepted", True)
        else:
            env.holds("the bounding-box test rejects only segments that do not cross transversally", ~crossing)
        return

    fl = env.floats
    conv = (lambda x: float(F(x))) if fl else F
    VA = [[conv(a), conv(b)] for a, b in cfg["VA"]]
    VB0 = [[conv(a), conv(b)] for a, b in cfg["VB"]]
    KA, KB = [conv(x) for x in cfg["KA"]], [conv(x) for x in cfg["KB"]]
    if cfg["fixed"][0] == "dy":
        dx, dy = env.real("dx", nice=(-2, 2)), env.const(F(cfg["fixed"][1]))
        lo_, hi_ = [F(x) for x in cfg.get("dxrange", ["-3", "3"])]
        env.assume((dx <= hi_) & (dx >= lo_))
    else:
        dx, dy = env.const(F(cfg["fixed"][1])), env.real("dy", nice=(-2, 2))
        env.assume((dy <= 3) & (dy >= -3))
    VB = [[x + dx, y + dy] for x, y in VB0]
    A = polyline(Curve, VA, KA, fl)
    B = polyline(Curve, VB, KB, fl)
    sa, sb = kmode.snapshot(A), kmode.snapshot(B)
    shims.install(env, advanced)
    res = advanced.Intersection.curve_and_curve(A, B)
    kmode.unchanged(env, A, sa, "Intersection: first curve")
    kmode.unchanged(env, B, sb, "Intersection: second curve")
    res = [tuple(p) for p in res]
    env.observe("pairs", [list(p) for p in res])
    tol = F(1, 10 ** 6) if not fl else 1e-6
    for k, (t, u) in enumerate(res):
        env.holds(f"pair {k} inside both parameter intervals", (t >= KA[0]) & (t <= KA[-1]) & (u >= KB[0]) & (u <= KB[-1]))
        pa, pb = seg_eval(VA, KA, t), seg_eval(VB, KB, u)
        ex, ey = pa[0] - pb[0], pa[1] - pb[1]
        env.holds(f"pair {k}: A(t) == B(u) (1e-6)", ex * ex + ey * ey <= tol * tol)
    for i in range(len(res)):
        for j in range(i + 1, len(res)):
            dt, du = res[i][0] - res[j][0], res[i][1] - res[j][1]
            env.holds("no duplicate pairs", dt * dt + du * du >= F(1, 10 ** 18) if not fl else dt * dt + du * du >= 1e-18)
    # oracle: crossings of every pair of segments
    margin = F(1, 1000)
    for i in range(len(KA) - 1):
        for j in range(len(KB) - 1):
            ax, ay = VA[i + 1][0] - VA[i][0], VA[i + 1][1] - VA[i][1]
            bx, by = VB0[j + 1][0] - VB0[j][0], VB0[j + 1][1] - VB0[j][1]
            det = ax * (-by) - (-bx) * ay
            if det == 0:
                continue
            rx, ry = VB[j][0] - VA[i][0], VB[j][1] - VA[i][1]
            lam = (rx * (-by) - (-bx) * ry) / det
            mu = (ax * ry - ay * rx) / det
            tstar = KA[i] + lam * (KA[i + 1] - KA[i])
            ustar = KB[j] + mu * (KB[j + 1] - KB[j])
            inside = (lam >= margin) & (lam <= 1 - margin) & (mu >= margin) & (mu <= 1 - margin)
            found = False
            for (t, u) in res:
                e1, e2 = t - tstar, u - ustar
                found = found | ((e1 <= tol) & (-e1 <= tol) & (e2 <= tol) & (-e2 <= tol))
            env.holds(f"the transversal crossing of segment {i} of A and segment {j} of B is returned with its parameters",
                      (~inside) | found if env.sym else (not bool(inside)) or bool(found))
    if cfg.get("vertex"):
        # the crossing at the vertex (1.3, 2.1) of A, parameter 1 on A, must be reported exactly once
        ustar = (F(13, 10) - (F(-1, 2) + dx)) / F(36, 10)
        hits = 0
        for (t, u) in res:
            e1, e2 = t - 1, u - ustar
            if bool((e1 <= tol) & (-e1 <= tol) & (e2 <= tol) & (-e2 <= tol)):
                hits += 1
        env.holds("the crossing at the polyline vertex is reported, once", hits == 1 and len(res) == 1)
    if cfg.get("endpoint"):
        # expected pair: t fixed, u = u0 + slope * dx
        t0, u0, slope = [F(x) for x in cfg["endpoint"]]
        ustar = u0 + slope * dx
        hits = 0
        for (t, u) in res:
            e1, e2 = t - t0, u - ustar
            if bool((e1 <= tol) & (-e1 <= tol) & (e2 <= tol) & (-e2 <= tol)):
                hits += 1
        env.holds("the meeting point at the end of A's interval is reported, once", hits == 1 and len(res) == 1)
    # "curves that do not meet give ()" is the contrapositive of the per-pair obligation above: every returned pair has
    # |A(t) - B(u)| <= 1e-6, so a non-empty result means the curves meet (to 1e-6)
