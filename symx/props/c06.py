"""C06  Degree elevation is exact; degree reduction is its inverse or is refused.

Bezier curves: mode S (symbolic end knots a < b, control points, positive weights).
Splines: mode K (concrete Fraction knots, symbolic control points, concrete weights)."""
from __future__ import annotations

from fractions import Fraction

import numpy as np

from ..ref import KV
from .. import fam, kmode
from .c01 import make_points
from .c03 import GAP
from .c04 import same_function
from .c07 import _mixed_points
from .c08 import conc_weights

ID = "C06"
CFG_TIMEOUT_S = {"quick": 400, "thorough": 1800}
F = Fraction

META = dict(
    bounds=dict(
        quick="Bezier degree 0..3, t=1..3 (symbolic ends, points, weights); splines: every pattern of degree 0..3 with 1-2 interior knots "
              "(sampled), t=1..2, via degree_increase and via the degree setter; polynomial and rational (concrete weights); reduction: "
              "elevate-then-reduce (all control points symbolic), arbitrary curves (two symbolic control points), default tolerance, tolerance 0, tolerance=None",
        thorough="all patterns of degree 0..3 with <=2 interior knots and 3 knots for degree<=1, t up to 3, two value assignments",
    ),
    assumptions=["exact arithmetic", "splines: Fraction knots; rational: concrete positive weights (Bezier: symbolic weights, find_roots stubbed)",
                 "arbitrary-curve reduction: two control points symbolic, the others fixed rationals"],
    outside=["symbolic knots for multi-span curves", "degree > 6 after elevation", "float knots (C16)"],
)


def configs(tier, seed):
    cfgs = []
    for p in range(0, 4):
        for t in (1, 2, 3):
            if p + t > 5:
                continue
            how = ("call", "setter")[(p + t + seed) % 2]
            cfgs.append(dict(name=f"bezier S p={p} t={t} pol {how}", kind="bezier", p=p, t=t, rat=False, dim=(p + t) % 2 * 2, how=how))
            if p >= 1 and p + t <= 4:
                cfgs.append(dict(name=f"bezier S p={p} t={t} rat", kind="bezier", p=p, t=t, rat=True, dim=0, how="call"))
    famy = [c for c in fam.pattern_family(range(0, 4), 2, seed=seed) if len(c[1]) >= 3]
    if tier == "quick":
        famy = [c for i, c in enumerate(famy) if len(c[1]) == 3 or (i + seed) % 3 == 0]
    else:
        famy += [c for c in fam.pattern_family(range(0, 2), 3, seed=seed) if len(c[1]) == 5]
    for i, (p, pat) in enumerate(famy):
        for rep in range(1 if tier == "quick" else 2):
            vals = fam.concrete_values(len(pat), seed + rep, i)
            base = dict(p=p, mults=pat, vals=[str(v) for v in vals])
            tag = f"p={p} mults={pat} vals={base['vals']}"
            for t in ((1, 2) if tier == "quick" else (1, 2, 3)):
                if p + t > 5 or (t == 3 and len(pat) > 3):
                    continue
                how = ("call", "setter")[(i + t + seed) % 2]
                cfgs.append(dict(name=f"elevate {tag} t={t} {how}", kind="elevate", t=t, rat=False, dim=(i + t) % 2 * 2, how=how, **base))
                if 1 <= p <= 2 and t == 1:
                    cfgs.append(dict(name=f"elevate {tag} t={t} rat", kind="elevate", t=t, rat=True, dim=0, how="call", **base))
                cfgs.append(dict(name=f"roundtrip {tag} t={t}", kind="roundtrip", t=t, rat=False, dim=0, **base))
            if p >= 1:
                cfgs.append(dict(name=f"reduce-none {tag}", kind="none", **base))
                cfgs.append(dict(name=f"reduce-band {tag}", kind="band", **base))
                if (i + seed) % 2 == 0:
                    cfgs.append(dict(name=f"reduce-band {tag} tolerance=0", kind="band", tol0=True, **base))
            if p >= 2:
                # vector-valued points: x(u) = u is exactly reducible, y is arbitrary -- the worst coordinate decides
                cfgs.append(dict(name=f"reduce-band2d {tag}", kind="band2d", **base))
            if 1 <= p <= 2 and len(pat) == 3:
                cfgs.append(dict(name=f"roundtrip {tag} t=1 rat", kind="roundtrip", t=1, rat=True, dim=0, **base))
    cfgs.append(dict(name="invalid requests", kind="invalid"))
    return cfgs


def body(env, cfg):
    from compmec.nurbs import Curve
    from compmec.nurbs import heavy

    kind = cfg["kind"]
    if kind == "invalid":
        P = env.reals("P", 3)
        c = Curve([F(0), F(0), F(1, 2), F(1), F(1)], P)
        snap = kmode.snapshot(c)
        for what, fn in [("degree=-1", lambda: setattr(c, "degree", -1)), ("degree=1.5", lambda: setattr(c, "degree", 1.5)),
                         ("degree_increase(0)", lambda: c.degree_increase(0)), ("degree_increase(-1)", lambda: c.degree_increase(-1)),
                         ("degree_decrease(0)", lambda: c.degree_decrease(0)), ("degree_decrease(2)", lambda: c.degree_decrease(2))]:
            try:
                fn()
            except ValueError:
                kmode.unchanged(env, c, snap, what)
                continue
            env.fail(f"{what} did not raise ValueError")
        c.degree = 1
        kmode.unchanged(env, c, snap, "degree = current degree")
        return

    if kind == "bezier":
        p, t = cfg["p"], cfg["t"]
        a, b = env.ordered("t", 2, GAP)
        kv = KV([a, b], [p + 1, p + 1])
        P = make_points(env, "P", p + 1, cfg["dim"])
        W = None
        if cfg["rat"]:
            W = env.positives("w", p + 1)
            if env.sym:
                env.patch(heavy, "find_roots", lambda *x, **k: ())
        c = Curve(list(kv.U), P, W)
        if cfg["how"] == "call":
            c.degree_increase(t)
        else:
            c.degree = p + t
        kv2 = KV([a, b], [p + t + 1, p + t + 1])
        env.eq("elevated Bezier knot vector", list(c.knotvector), list(kv2.U))
        env.holds("degree raised by t", c.degree == p + t and len(c.ctrlpoints) == p + t + 1)
        Q, Wq = list(c.ctrlpoints), (None if c.weights is None else list(c.weights))
        env.observe("Q", Q)
        same_function(env, kv, P, W, kv2, Q, Wq, cfg["dim"], "degree_increase")
        return

    p, mults = cfg["p"], cfg["mults"]
    vals = [F(v) for v in cfg["vals"]]
    kv = KV(vals, mults)

    if kind == "elevate":
        t = cfg["t"]
        P = make_points(env, "P", kv.n, cfg["dim"])
        W = conc_weights(kv.n, 7) if cfg["rat"] else None
        c = Curve(list(kv.U), P, W)
        if cfg["how"] == "call":
            c.degree_increase(t)
        else:
            c.degree = p + t
        kv2 = KV(vals, [m + t for m in mults], p + t)
        env.holds("every distinct knot's multiplicity and the degree raised by t",
                  list(c.knotvector) == list(kv2.U) and c.degree == p + t and len(c.ctrlpoints) == kv2.n)
        Q, Wq = list(c.ctrlpoints), (None if c.weights is None else list(c.weights))
        env.observe("Q", Q)
        kmode.same_function(env, "degree_increase", kv, P, W, kv2, Q, Wq)
        return

    if kind == "roundtrip":
        t = cfg["t"]
        P = make_points(env, "P", kv.n, cfg["dim"])
        W = conc_weights(kv.n, 7) if cfg["rat"] else None
        c = Curve(list(kv.U), P, W)
        c.degree_increase(t)
        try:
            c.degree_decrease(t)
        except ValueError as e:
            env.fail(f"degree_decrease refused a curve that is exactly representable at the lower degree ({str(e)[:70]})")
            return
        env.holds("knot vector restored", list(c.knotvector) == list(kv.U) and c.degree == p)
        if W is None:
            env.eq("degree_decrease undoes degree_increase exactly: control points", list(c.ctrlpoints), list(P))
        else:
            env.holds("weights present", c.weights is not None)
            if c.weights is not None:
                kmode.same_function(env, "rational: same function after elevate+reduce", kv, P, W, kv, list(c.ctrlpoints), list(c.weights))
        return

    # reduction of an arbitrary curve of degree p to p-1
    m1 = [m - 1 for m in mults]
    keep = [(v, m) for v, m in zip(vals, m1) if m > 0]
    kv1 = KV([v for v, m in keep], [m for v, m in keep], p - 1)
    if kind == "none":
        P = make_points(env, "P", kv.n, 0)
        c = Curve(list(kv.U), P)
        c.degree_decrease(1, None)
        env.holds("tolerance=None: reduced knot vector", list(c.knotvector) == list(kv1.U) and c.degree == p - 1)
        Q = list(c.ctrlpoints)
        if p - 1 == 0:
            return  # degree 0: no interpolation nodes are used by the library
        for z in kv1.vals:
            dn, do = kmode.interval_of(kv1, z), kmode.interval_of(kv, z)
            if z == kv1.vals[-1]:
                dn, do = kv1.nint - 1, kv.nint - 1
            if z not in (vals[0], vals[-1]) and mults[vals.index(z)] == p + 1:
                continue
            env.eq(f"tolerance=None: keeps the value at the remaining knot {z}", kmode.piece(kv1, Q, dn)(z), kmode.piece(kv, P, do)(z))
        return

    # band
    if kind == "band2d":
        ys = _mixed_points(env, "P", kv.n, {0, kv.n // 2}, p)
        xs = [sum(kv.U[i + 1: i + p + 1], F(0)) / p for i in range(kv.n)]      # Greville abscissae: x(u) = u
        P = [np.array([env.const(x), y], dtype=object) for x, y in zip(xs, ys)]
    else:
        P = _mixed_points(env, "P", kv.n, {0, kv.n // 2}, p)
    c = Curve(list(kv.U), P)
    snap = kmode.snapshot(c)
    try:
        if cfg.get("tol0"):
            c.degree_decrease(1, 0)  # only an exact reduction may be accepted
        else:
            c.degree_decrease(1)
    except ValueError:
        kmode.unchanged(env, c, snap, "refused degree_decrease")
        return
    env.holds("reduced knot vector", list(c.knotvector) == list(kv1.U) and c.degree == p - 1)
    L = vals[-1] - vals[0]
    bound = 2 * (F(0) if cfg.get("tol0") else F(1e-9)) * max(1, L)
    for k, e in enumerate(kmode.l2_sq(kv, P, kv1, list(c.ctrlpoints))):
        env.holds(f"accepted reduction: integral of squared deviation <= 2*tol*max(1,L) (coord {k})", e <= bound)
