"""C07  Splitting restricts the curve exactly; joining adjacent pieces restores it.

split: mode S (symbolic knots, cut points anywhere on the real line, control points, weights);
join : mode K (concrete Fraction knots, symbolic control points): pieces of a split and
       independently built adjacent pairs."""
from __future__ import annotations

from fractions import Fraction

import numpy as np

from ..ref import KV, curve_value, divnz
from .. import fam, kmode
from .c01 import make_points
from .c03 import separated, GAP
from .c04 import same_function

ID = "C07"
CFG_TIMEOUT_S = {"quick": 400, "thorough": 1800}
MAX_PATHS = 20000

META = dict(
    bounds=dict(
        quick="split: degree 0..3, <=2 interior knots (sampled patterns), 0-2 symbolic cuts and split(); polynomial and rational (p<=2); "
              "join: split-rejoin on ~11 concrete vectors of degree 0..3 (cuts inside every span: all control points symbolic; cuts at "
              "every interior knot: the two control points next to the junction symbolic, the others fixed) and 8 independent pairs (equal and different degrees in both orders) "
              "(three control points next to the junction symbolic)",
        thorough="split: all patterns of degree <=3 with <=2 interior knots, up to 2 cuts; join: ~60 cases",
    ),
    assumptions=["exact real arithmetic", "knots and cut points pairwise equal or at least 1e-5 apart",
                 "weights > 0, find_roots stubbed while weights are symbolic",
                 "join of independent pairs: when a junction knot is removed within the library's tolerance the joined curve is "
                 "required to stay within integral((A|B) - piecewise)^2 <= k^2*2*1e-9*max(1, L) for k removals, per coordinate",
                 "paths on which more than one junction knot is removed inexactly (within the 1e-9 tolerance but with non-zero error) "
                 "are not claimed: the bound could not be decided by the solver there"],
    outside=["join with symbolic knot values (the library inverts Gram matrices: needs concrete numbers)", "rational join",
             "more than 2 cuts"],
)


def configs(tier, seed):
    cfgs = []
    famy = fam.pattern_family(range(0, 4), 2, seed=seed)
    if tier == "quick":
        famy = [c for i, c in enumerate(famy) if len(c[1]) <= 3 or (i + seed) % 3 == 0]
    for i, (p, pat) in enumerate(famy):
        for nc in (0, 1, 2):
            if nc == 2 and len(pat) > 3 and (tier == "quick" or p > 2):
                continue
            dim = 2 if (i + nc) % 3 == 0 else 0
            cfgs.append(dict(name=f"split p={p} mults={pat} cuts={nc} pol dim={dim}", kind="split", p=p, mults=pat, nc=nc,
                             rational=False, dim=dim))
            if 1 <= p <= 2 and nc <= 1 and len(pat) <= 3:
                cfgs.append(dict(name=f"split p={p} mults={pat} cuts={nc} rat", kind="split", p=p, mults=pat, nc=nc,
                                 rational=True, dim=0))
    # join (K)
    kfam = fam.pattern_family(range(0, 4), 2, seed=seed)
    step = 4 if tier == "quick" else 1
    for i, (p, pat) in enumerate(kfam):
        if (i + seed) % step:
            continue
        vals = fam.concrete_values(len(pat), seed, i)
        cfgs.append(dict(name=f"rejoin p={p} mults={pat} vals={[str(v) for v in vals]} cuts inside spans", kind="rejoin", p=p,
                         mults=pat, vals=[str(v) for v in vals], dim=(i % 2) * 2, at="span"))
        for j in range(1, len(pat) - 1):
            cfgs.append(dict(name=f"rejoin p={p} mults={pat} vals={[str(v) for v in vals]} cut at knot {j}", kind="rejoin", p=p,
                             mults=pat, vals=[str(v) for v in vals], dim=0, at=j))
    pairs = [(0, [1, 1], 0, [1, 1]), (1, [2, 2], 1, [2, 2]), (1, [2, 1, 2], 1, [2, 2]), (2, [3, 3], 2, [3, 1, 3]),
             (1, [2, 2], 2, [3, 3]), (2, [3, 2, 3], 1, [2, 2]), (3, [4, 4], 3, [4, 4]), (0, [1, 1], 1, [2, 2])]
    for i, (p, ma, q, mb) in enumerate(pairs):
        cfgs.append(dict(name=f"join p={p} {ma} | q={q} {mb}", kind="join", p=p, ma=ma, q=q, mb=mb, k=i))
    # vector-valued operands whose end points agree in one coordinate only (x continuous, y free)
    for i, (p, ma, q, mb) in enumerate(pairs[1:4] if tier == "quick" else pairs[:7]):
        cfgs.append(dict(name=f"join 2-D, x continuous: p={p} {ma} | q={q} {mb}", kind="join", p=p, ma=ma, q=q, mb=mb, k=i + 3, dim2=True))
    cfgs.append(dict(name="join gap", kind="joingap"))
    cfgs.append(dict(name="rational rejoin", kind="ratjoin"))
    return cfgs


def _split(env, cfg):
    from compmec.nurbs import Curve
    from compmec.nurbs import heavy
    p, mults = cfg["p"], cfg["mults"]
    t = env.ordered("t", len(mults), GAP)
    kv = KV(t, mults)
    P = make_points(env, "P", kv.n, cfg["dim"])
    W = None
    if cfg["rational"]:
        W = env.positives("w", kv.n)
        if env.sym:
            env.patch(heavy, "find_roots", lambda *a, **k: ())
    curve = Curve(list(kv.U), P, W)
    snap = kmode.snapshot(curve)
    cuts = env.reals("c", cfg["nc"])
    separated(env, cuts)
    separated(env, cuts, t)
    inside = True
    for c in cuts:
        inside = inside & ((t[0] <= c) & (c <= t[-1]))
    try:
        pieces = curve.split(list(cuts)) if cfg["nc"] else curve.split()
    except (ValueError, AssertionError):
        env.holds("split rejects only cut points outside the interval", (~inside) if not isinstance(inside, bool) else not inside)
        kmode.unchanged(env, curve, snap, "rejected split")
        return
    env.holds("split accepts only cut points inside the interval", inside)
    kmode.unchanged(env, curve, snap, "split")
    if cfg["nc"] == 0:
        # an empty cut set is not "no argument": no interior cut point, hence the whole curve as one piece
        for empty in ([], (), [t[0], t[-1]]):
            whole = curve.split(empty)
            env.holds(f"split({empty if not empty else 'ends only'}) returns one piece on the whole interval",
                      len(whole) == 1 and list(whole[0].knotvector) == list(kv.U) and whole[0] is not curve)
            if len(whole) == 1 and len(whole[0].ctrlpoints) == kv.n:
                env.eq("... with the control points of the curve", [q for q in whole[0].ctrlpoints], list(P))
    # expected boundaries
    if cfg["nc"] == 0:
        bounds = list(t)
    else:
        inner = []
        for c in cuts:
            if bool((t[0] < c) & (c < t[-1])) and not any(bool(c == x) for x in inner):
                inner.append(c)
        inner.sort(key=_Key)
        bounds = [t[0]] + inner + [t[-1]]
    env.holds("one curve per sub-interval between consecutive distinct cut points", len(pieces) == len(bounds) - 1)
    if len(pieces) != len(bounds) - 1:
        return
    for k, (pc, (a, b)) in enumerate(zip(pieces, zip(bounds[:-1], bounds[1:]))):
        vals = [a] + [x for x in t if bool((a < x) & (x < b))] + [b]
        mm = [p + 1] + [mults[t.index(x)] for x in vals[1:-1]] + [p + 1]
        ref = KV(vals, mm, p)
        env.eq(f"piece {k}: clamped on its sub-interval with the interior knots of the original", list(pc.knotvector), list(ref.U))
        env.holds(f"piece {k}: shape", pc.degree == p and len(pc.ctrlpoints) == ref.n and (pc.weights is None) == (W is None))
        Q = list(pc.ctrlpoints)
        Wq = None if pc.weights is None else list(pc.weights)
        env.observe(f"piece{k}", Q)
        same_function(env, kv, P, W, ref, Q, Wq, cfg["dim"], f"piece {k}")


class _Key:
    """sort key deciding by the (symbolic) comparison"""

    def __init__(self, v):
        self.v = v

    def __lt__(self, o):
        return bool(self.v < o.v)


def _frac_points(env, prefix, n, dim):
    return make_points(env, prefix, n, dim)


def _mixed_points(env, prefix, n, symbolic, salt):
    """control points: the indices in `symbolic` are solver variables, the others fixed rationals"""
    pts = []
    for i in range(n):
        if i in symbolic:
            pts.append(env.real(f"{prefix}{i}"))
        else:
            pts.append(env.const(Fraction(((i * 7 + salt * 5) % 11) - 5, 1 + ((i + salt) % 4))))
    return pts


def _rejoin(env, cfg):
    from compmec.nurbs import Curve
    p, mults = cfg["p"], cfg["mults"]
    vals = [Fraction(v) for v in cfg["vals"]]
    kv = KV(vals, mults)
    cuts = []
    if cfg["at"] == "span":
        # cut strictly inside every span: nothing but the exact removals can happen, all points symbolic
        P = make_points(env, "P", kv.n, cfg["dim"])
        cuts = [(a + 2 * b) / 3 for a, b in zip(vals[:-1], vals[1:])]
    else:
        # cut at an existing knot: the library then tries one more (inexact) removal and the outcome depends on the
        # control points; two of them (next to the junction) are symbolic, the others fixed
        j = cfg["at"]
        span = kv.span_of(j) - mults[j]  # last span index left of the knot
        sym = {max(0, min(kv.n - 1, span)), max(0, min(kv.n - 1, span + 1))}
        P = _mixed_points(env, "P", kv.n, sym, j)
        cuts = [vals[j]]
    curve = Curve(list(kv.U), P)
    snap = kmode.snapshot(curve)
    for cut in cuts:
        pieces = curve.split([cut])
        A, B = pieces
        sa, sb = kmode.snapshot(A), kmode.snapshot(B)
        J = A | B
        kmode.unchanged(env, A, sa, "join left operand")
        kmode.unchanged(env, B, sb, "join right operand")
        kvJ = kmode.lib_kv(J)
        m0 = mults[vals.index(cut)] if cut in vals else 0
        mj = list(J.knotvector).count(cut)
        env.holds(f"rejoin at {cut}: junction keeps at most the original multiplicity", mj <= m0 and J.degree == p)
        if mj >= m0:
            kmode.same_function(env, f"split at {cut} then join", kv, P, None, kvJ, list(J.ctrlpoints), None)
        else:
            # the junction knot was judged removable within the library's 1e-9 tolerance (m0 - mj times)
            k = m0 - mj
            env.assume(k <= 1)  # deeper tolerance-level removals: outside the claim (see META)
            bound = 2 * Fraction(1e-9) * max(1, vals[-1] - vals[0]) * k * k
            for c, e in enumerate(kmode.l2_sq(kv, P, kvJ, list(J.ctrlpoints))):
                env.holds(f"rejoin at {cut} with {k} removal(s): integral of squared deviation within tolerance (coord {c})", e <= bound)
            env.note(f"rejoin at {cut}: junction multiplicity {mj} < original {m0}")
        others_ok = all(list(J.knotvector).count(v) == m for v, m in zip(vals, mults) if v != cut)
        env.holds(f"rejoin at {cut}: all other knots as in the original", others_ok)
    kmode.unchanged(env, curve, snap, "split+join")


def _join(env, cfg):
    from compmec.nurbs import Curve
    p, q = cfg["p"], cfg["q"]
    k = cfg["k"]
    va = fam.concrete_values(len(cfg["ma"]), k, 1)
    vb0 = fam.concrete_values(len(cfg["mb"]), k + 1, 2)
    shift = va[-1] - vb0[0]
    vb = [x + shift for x in vb0]
    kva, kvb = KV(va, cfg["ma"]), KV(vb, cfg["mb"])
    if cfg.get("allsym"):
        P = env.reals("P", kva.n)
        Q = env.reals("Q", kvb.n)
    else:
        P = _mixed_points(env, "P", kva.n, {kva.n - 1}, k)
        Q = _mixed_points(env, "Q", kvb.n, {0, 1} if kvb.n > 1 else {0}, k + 1)
    if cfg.get("dim2"):
        # y: the two end values at the junction are symbolic; x: fixed, and equal at the junction
        P = _mixed_points(env, "P", kva.n, {kva.n - 1}, k)
        Q = _mixed_points(env, "Q", kvb.n, {0}, k + 1)
        xa = [Fraction(3 * i - 2, 2) for i in range(kva.n)]
        xb = [env.const(xa[-1] + Fraction(5 * i, 3)) for i in range(kvb.n)]
        xa = [env.const(x) for x in xa]
        P = [np.array([x, y], dtype=object) for x, y in zip(xa, P)]
        Q = [np.array([x, y], dtype=object) for x, y in zip(xb, Q)]
    A, B = Curve(list(kva.U), P), Curve(list(kvb.U), Q)
    sa, sb = kmode.snapshot(A), kmode.snapshot(B)
    J = A | B
    kmode.unchanged(env, A, sa, "join left operand")
    kmode.unchanged(env, B, sb, "join right operand")
    r = max(p, q)
    kvJ = kmode.lib_kv(J)
    mj = list(J.knotvector).count(va[-1])
    env.holds("joined curve: degree max(p,q), interval is the union", J.degree == r and kvJ.vals[0] == va[0] and kvJ.vals[-1] == vb[-1])
    removed = r + 1 - mj  # the raw concatenation has full multiplicity r+1 at the junction
    env.holds("junction multiplicity within 0..max degree+1", 0 <= mj <= r + 1)
    QJ = list(J.ctrlpoints)
    L = vb[-1] - va[0]
    bound = 2 * Fraction(1e-9) * max(1, L)
    if removed == 0:
        kmode.same_function(env, "A|B on A's interval", kva, P, None, kvJ, QJ, None, lo=va[0], hi=va[-1])
        kmode.same_function(env, "A|B on B's interval", kvb, Q, None, kvJ, QJ, None, lo=vb[0], hi=vb[-1])
    else:
        env.assume(removed <= 1)  # deeper tolerance-level removals: outside the claim (see META)
        eas = kmode.l2_sq(kva, P, kvJ, QJ, lo=va[0], hi=va[-1])
        ebs = kmode.l2_sq(kvb, Q, kvJ, QJ, lo=vb[0], hi=vb[-1])
        for c, (ea, eb) in enumerate(zip(eas, ebs)):
            env.holds(f"junction knot removed {removed}x: deviation within the tolerance (coord {c})", ea + eb <= bound * removed * removed)
    env.note(f"junction multiplicity {mj}")


def _joingap(env, cfg):
    from compmec.nurbs import Curve
    P = env.reals("P", 2)
    Q = env.reals("Q", 2)
    g = env.real("g")
    env.assume((g >= GAP) | (g <= -GAP))
    A = Curve([Fraction(0), Fraction(0), Fraction(1), Fraction(1)], P)
    B = Curve([1 + g, 1 + g, 3 + g, 3 + g], Q)
    try:
        A | B
    except ValueError:
        env.holds("max(A) != min(B) raises ValueError", True)
        return
    env.fail("A | B with max(A) != min(B) did not raise ValueError")


def _ratjoin(env, cfg):
    """pieces of a rational curve joined again (known finding F13: A | B drops the weights)"""
    from compmec.nurbs import Curve
    from .c08 import conc_weights
    vals = [Fraction(0), Fraction(1, 3), Fraction(1)]
    kv = KV(vals, [3, 1, 3])
    P = env.reals("P", kv.n)
    W = conc_weights(kv.n, 2)
    c = Curve(list(kv.U), P, W)
    a, b = c.split([Fraction(1, 2)])
    j = a | b
    kvj = kmode.lib_kv(j)
    kmode.same_function(env, "rational: split then join", kv, P, W, kvj, list(j.ctrlpoints), None if j.weights is None else list(j.weights))


def body(env, cfg):
    {"split": _split, "rejoin": _rejoin, "join": _join, "joingap": _joingap, "ratjoin": _ratjoin}[cfg["kind"]](env, cfg)
