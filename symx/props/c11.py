"""C11  fit_curve is the L2-orthogonal projection (with optional exact interpolation).

Mode K: concrete Fraction knot vectors for source and target, symbolic source control points.
Oracle: exact Gram matrices (integrals of products of Cox-de Boor pieces)."""
from __future__ import annotations

from fractions import Fraction

import numpy as np

from ..ref import KV, gram, basis_row
from .. import fam, kmode, core
from .c01 import make_points

ID = "C11"
CFG_TIMEOUT_S = {"quick": 400, "thorough": 1800}
F = Fraction

META = dict(
    bounds=dict(
        quick="16 (source, target) pairs of concrete vectors of degree 0..3 on a common interval (non-uniform breakpoints, repeated "
              "knots, coarser / finer / unrelated target), scalar and 2-D points; interpolation nodes: none, the target's knots, "
              "one or two explicit nodes",
        thorough="the 16 pairs plus ~40 seeded random pairs",
    ),
    assumptions=["Fraction knots, exact arithmetic", "polynomial (non-rational) source and target",
                 "the returned error is compared through the argument of the library's final abs() (a quadratic form in P)"],
    outside=["symbolic knots", "rational fitting (see known finding F17)", "more nodes than control points (NotImplementedError in the library)"],
)

PAIRS = [
    # source (p, vals, mults), target (q, vals, mults)
    ((2, [0, 1], [3, 3]), (1, [0, 1], [2, 2])),
    ((2, [0, F(1, 3), 1], [3, 1, 3]), (2, [0, 1], [3, 3])),
    ((1, [0, F(1, 3), 1], [2, 1, 2]), (1, [0, F(2, 3), 1], [2, 1, 2])),
    ((3, [-1, 2], [4, 4]), (2, [-1, 0, 2], [3, 1, 3])),
    ((2, [0, 1, 3], [3, 2, 3]), (1, [0, 2, 3], [2, 1, 2])),
    ((1, [0, 2], [2, 2]), (2, [0, F(1, 2), 2], [3, 1, 3])),
    ((0, [0, 1, 4], [1, 1, 1]), (1, [0, 4], [2, 2])),
    ((2, [0, 1, 2, 4], [3, 1, 1, 3]), (2, [0, 2, 4], [3, 1, 3])),
    ((1, [0, 1, 4], [2, 2, 2]), (1, [0, 1, 4], [2, 1, 2])),
    ((3, [0, F(1, 4), 1], [4, 2, 4]), (3, [0, 1], [4, 4])),
    ((1, [0, 3], [2, 2]), (0, [0, 1, 3], [1, 1, 1])),
    ((2, [-2, 0, 1], [3, 2, 3]), (2, [-2, -1, 1], [3, 1, 3])),
    ((1, [0, 1, 2, 5], [2, 1, 1, 2]), (3, [0, 5], [4, 4])),
    ((2, [0, 5], [3, 3]), (2, [0, 1, 5], [3, 3, 3])),
    ((0, [-1, F(13, 8), 6], [1, 1, 1]), (3, [-1, 1, 4, 6], [4, 2, 2, 4])),
    ((3, [0, F(3, 8), F(3, 4), 6], [4, 2, 4, 4]), (0, [0, 6], [1, 1])),
]


def configs(tier, seed):
    cfgs = []
    pairs = list(PAIRS)
    if tier == "thorough":
        import random
        rnd = random.Random(seed)
        pats = fam.pattern_family(range(0, 4), 2, seed=seed)
        while len(pairs) < len(PAIRS) + 40:
            (pa, ma), (pb, mb) = rnd.choice(pats), rnd.choice(pats)
            pool = sorted(rnd.sample([F(x, 8) for x in range(1, 40)], 4))
            lo, hi = F(rnd.randint(-2, 0)), F(rnd.randint(5, 7))
            va = [lo] + sorted(rnd.sample(pool, len(ma) - 2)) + [hi]
            vb = [lo] + sorted(rnd.sample(pool, len(mb) - 2)) + [hi]
            pairs.append(((pa, va, ma), (pb, vb, mb)))
    for k, ((ps, vs, ms), (pt, vt, mt)) in enumerate(pairs):
        base = dict(ps=ps, vs=[str(F(v)) for v in vs], ms=ms, pt=pt, vt=[str(F(v)) for v in vt], mt=mt)
        for nodes in ("none", "knots", "one", "two"):
            nsrc = sum(ms) - ps - 1
            dim = 2 if (k + len(nodes)) % 3 == 0 and nsrc <= 3 else 0  # 2-D: the max over coordinates forks on quadratic forms
            cfgs.append(dict(name=f"pair{k} nodes={nodes} dim={dim}", kind="fit", nodes=nodes, dim=dim, **base))
        cfgs.append(dict(name=f"pair{k} source inside target space", kind="inside", **base))
    return cfgs


def colloc(kv, z):
    """row of basis values N_i(z) (left limit at umax)"""
    d = kmode.interval_of(kv, z)
    if z == kv.vals[-1]:
        d = kv.nint - 1
    return basis_row(kv, kv.p, z, d)[: kv.n]


def nullspace(rows, n):
    """rational basis of {c : rows c = 0} by Gauss-Jordan"""
    A = [list(r) for r in rows]
    piv = []
    r = 0
    for c in range(n):
        k = next((i for i in range(r, len(A)) if A[i][c] != 0), None)
        if k is None:
            continue
        A[r], A[k] = A[k], A[r]
        A[r] = [x / A[r][c] for x in A[r]]
        for i in range(len(A)):
            if i != r and A[i][c] != 0:
                A[i] = [x - A[i][c] * y for x, y in zip(A[i], A[r])]
        piv.append(c)
        r += 1
        if r == len(A):
            break
    free = [c for c in range(n) if c not in piv]
    basis = []
    for f in free:
        v = [F(0)] * n
        v[f] = F(1)
        for i, c in enumerate(piv):
            v[c] = -A[i][f]
        basis.append(v)
    return basis


def matvec(M, x):
    out = []
    for row in M:
        acc = 0
        for a, b in zip(row, x):
            if a != 0:
                acc = acc + b * a
        out.append(acc)
    return out


def body(env, cfg):
    from compmec.nurbs import Curve

    vs, vt = [F(v) for v in cfg["vs"]], [F(v) for v in cfg["vt"]]
    kvs, kvt = KV(vs, cfg["ms"]), KV(vt, cfg["mt"])
    if cfg["kind"] == "inside":
        # a curve of the target space, refined by the real knot_insert / degree_increase into a finer space
        P0 = env.reals("P", kvt.n)
        src = Curve(list(kvt.U), P0)
        extra = [v for v in vs[1:-1] if v not in vt] or [(vt[0] + vt[-1]) / 2]
        src.knot_insert(extra)
        if cfg["ps"] > cfg["pt"]:
            src.degree_increase(cfg["ps"] - cfg["pt"])
        snap = kmode.snapshot(src)
        tgt = Curve(list(kvt.U))
        err = tgt.fit_curve(src)
        kmode.unchanged(env, src, snap, "fit_curve: source")
        env.eq("a source that lies in the target space is reproduced exactly", list(tgt.ctrlpoints), list(P0))
        env.eq("... with zero error", err, 0)
        return

    dim = cfg["dim"]
    P = make_points(env, "P", kvs.n, dim)
    src = Curve(list(kvs.U), P)
    tgt = Curve(list(kvt.U))
    snap = kmode.snapshot(src)
    nodes = None
    if cfg["nodes"] == "knots":
        nodes = tuple(vt) if kvt.p > 0 else None
    elif cfg["nodes"] == "one":
        nodes = ((2 * vt[0] + vt[-1]) / 3,)
    elif cfg["nodes"] == "two":
        nodes = (vt[0], (vt[0] + 3 * vt[-1]) / 4) if kvt.n >= 2 else (vt[0],)
    if nodes is not None and len(nodes) > kvt.n:
        nodes = nodes[: kvt.n]
    if nodes is not None:
        # unisolvent: the collocation rows must be independent
        rows = [colloc(kvt, z) for z in nodes]
        if len(nullspace(rows, kvt.n)) != kvt.n - len(nodes):
            nodes = nodes[:1]
    err = tgt.fit_curve(src, nodes)
    kmode.unchanged(env, src, snap, "fit_curve: source")
    Q = list(tgt.ctrlpoints)
    env.holds("target keeps its knot vector and gets npts control points", list(tgt.knotvector) == list(kvt.U) and len(Q) == kvt.n)
    env.observe("Q", Q)
    Gtt, Gts, Gss = gram(kvt, kvt), gram(kvt, kvs), gram(kvs, kvs)
    quad = []
    for c, (pc, qc) in enumerate(zip(kmode.coords(P), kmode.coords(Q))):
        resid = [a - b for a, b in zip(matvec(Gtt, qc), matvec(Gts, pc))]  # <N^t_i, D - C>
        if nodes is None:
            env.eq(f"residual is L2-orthogonal to every basis function of the target space (coord {c})", resid, [0] * kvt.n)
        else:
            rows = [colloc(kvt, z) for z in nodes]
            for z, row in zip(nodes, rows):
                dz = kmode.interval_of(kvs, z)
                if z == vs[-1]:
                    dz = kvs.nint - 1
                cz = kmode.piece(kvs, pc, dz)(z)
                acc = 0
                for a, b in zip(row, qc):
                    if a != 0:
                        acc = acc + b * a
                env.eq(f"D(z) == C(z) at the interpolation node {z} (coord {c})", acc, cz)
            for k, v in enumerate(nullspace(rows, kvt.n)):
                acc = 0
                for a, b in zip(v, resid):
                    if a != 0:
                        acc = acc + b * a
                env.eq(f"residual is orthogonal to the target functions vanishing at all nodes (kernel vector {k}, coord {c})", acc, 0)
        # integral of the squared residual
        pGp = sum((x * y for x, y in zip(pc, matvec(Gss, pc))), 0)
        qGp = sum((x * y for x, y in zip(qc, matvec(Gts, pc))), 0)
        qGq = sum((x * y for x, y in zip(qc, matvec(Gtt, qc))), 0)
        quad.append(pGp - 2 * qGp + qGq)
    if dim == 2:
        # vector-valued points: the error of the worst coordinate
        kappa = F(1, 2) if nodes is not None else F(1)
        if env.sym:
            raw = getattr(err, "_absof", None) if isinstance(err, core.SV) else None
            if raw is not None:
                which = [c for c, q in enumerate(quad) if core.prove_eq(env.ctx, raw, kappa * q)[0] == "valid"]
                env.holds("returned error is kappa * integral of the squared residual of one coordinate", bool(which))
            for c, q in enumerate(quad):
                env.holds(f"returned error is at least that of coordinate {c} (the worst coordinate decides)", err >= kappa * q)
        else:
            env.eq("returned error == kappa * integral of the squared residual of the worst coordinate", err, kappa * max(quad))
    if dim == 0:
        raw = getattr(err, "_absof", None) if isinstance(err, core.SV) else None
        kappa = F(1, 2) if nodes is not None else F(1)
        if env.sym and raw is not None:
            env.eq("returned error == kappa * integral of the squared residual (kappa = 1, or 1/2 with nodes)", raw, kappa * quad[0])
        elif not env.sym:
            env.eq("returned error == kappa * integral of the squared residual (kappa = 1, or 1/2 with nodes)", err, kappa * quad[0])
            env.holds("error >= 0", err >= 0)
        else:
            env.eq("returned error == kappa * integral of the squared residual (kappa = 1, or 1/2 with nodes)", err, kappa * quad[0])
