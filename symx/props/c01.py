"""C01  Curve evaluation equals the B-spline / NURBS definition at every parameter.

Mode S: knot values, the parameter u (anywhere on the real line), control points and positive
weights are solver variables; degree, multiplicity pattern, call form and point dimension are
enumerated.  Oracle: Cox-de Boor (symx.ref)."""
from __future__ import annotations

from fractions import Fraction

import numpy as np

from ..ref import KV, curve_value, divnz
from .. import fam

ID = "C01"
CFG_TIMEOUT_S = {"quick": 300, "thorough": 1500}

META = dict(
    bounds=dict(
        quick="degree 0..3, <=2 distinct interior knots, every multiplicity pattern 1..p+1; "
              "scalar and 2-D points; polynomial and rational; scalar call, .eval, 2-node sequence; "
              "plus int- and Fraction-typed concrete vectors with symbolic u and control points",
        thorough="degree 0..5 (<=2 interior knots, all patterns), degree 0..3 with 3 interior knots (sampled patterns); rational up to degree 2, and degree 3 with <=1 interior knot",
    ),
    assumptions=[
        "numbers are exact reals (Fraction semantics); float rounding is not modelled",
        "distinct knots are at least 1e-5 apart (the closer-knots region is the separate 'close' configuration, see known finding F5)",
        "weights > 0; heavy.find_roots is replaced by a stub returning () while weights are symbolic (the concrete witness replays run the real find_roots)",
    ],
    outside=["degree >= 6, more than 3 distinct interior knots, 3-D points", "float rounding",
             "heavy.find_roots (float sampling/bisection)"],
)


def _variants(p, pat, k):
    out = [dict(rational=False, dim=0 if k % 2 == 0 else 2, call=("call", "eval", "seq")[k % 3])]
    out.append(dict(rational=True, dim=0 if k % 3 else 2, call="call"))  # (degree 0 included)
    return out


def configs(tier, seed):
    cfgs = []
    if tier == "quick":
        famy = fam.pattern_family(range(0, 4), 2, seed=seed)
    else:
        famy = fam.pattern_family(range(0, 6), 2, seed=seed)
        famy += [c for c in fam.pattern_family(range(0, 4), 3, cap=None, seed=seed) if len(c[1]) == 5][seed % 3::3]
    for k, (p, pat) in enumerate(famy):
        for v in _variants(p, pat, k + seed):
            if v["call"] == "seq" and len(pat) > 3:
                v = dict(v, call="eval")
            if v["rational"] and (p >= 4 or (p == 3 and len(pat) > 3)):
                continue  # (degree 3 with two interior knots: nlsat does not prove sum w_i N_i != 0 in time)
            name = f"S p={p} mults={pat} {'rat' if v['rational'] else 'pol'} dim={v['dim']} {v['call']}"
            cfgs.append(dict(name=name, mode="S", p=p, mults=pat, **v))
    # concrete (K) vectors: int-typed and Fraction-typed, symbolic u and control points
    for k, (p, pat) in enumerate(fam.pattern_family(range(0, 4), 2, seed=seed)):
        if (k + seed) % 4 and tier == "quick" and p > 0:
            continue
        vals = fam.concrete_values(len(pat), seed, k)
        cfgs.append(dict(name=f"K frac p={p} mults={pat} vals={[str(v) for v in vals]}", mode="K", p=p, mults=pat,
                         vals=[str(v) for v in vals], rational=bool(k % 2), dim=0, call="call"))
    # the same curve object evaluated again, at the same parameter, after its state was replaced (nothing may be remembered)
    for k, (p, pat) in enumerate(fam.pattern_family(range(1, 4), 1, seed=seed)):
        if (k + seed) % 3 and tier == "quick":
            continue
        vals = fam.concrete_values(len(pat), seed + 2, k)
        cfgs.append(dict(name=f"K restate p={p} mults={pat} vals={[str(v) for v in vals]}", mode="K", p=p, mults=pat,
                         vals=[str(v) for v in vals], rational=False, dim=0, call="call", restate=True))
    # close knots: no minimum gap (known finding F5 lives here)
    cfgs.append(dict(name="S close p=1 mults=[2, 1, 2] pol dim=0 call", mode="S", p=1, mults=[2, 1, 2], rational=False,
                     dim=0, call="call", close=True))
    return cfgs


def make_points(env, prefix, n, dim):
    if dim == 0:
        return env.reals(prefix, n)
    pts = []
    for i in range(n):
        pts.append(np.array([env.real(f"{prefix}{i}{'xyz'[k]}") for k in range(dim)], dtype=object))
    return pts


def body(env, cfg):
    from compmec.nurbs import Curve
    from compmec.nurbs import heavy

    p, mults = cfg["p"], cfg["mults"]
    nd = len(mults)
    if cfg["mode"] == "S":
        if cfg.get("close"):
            t = env.reals("t", nd)
            for a, b in zip(t[:-1], t[1:]):
                env.assume(a < b)
        else:
            t = env.ordered("t", nd)
    else:
        t = [Fraction(v) for v in cfg["vals"]]
    kv = KV(t, mults)
    npts = kv.n
    P = make_points(env, "P", npts, cfg["dim"])
    W = None
    if cfg["rational"] and cfg["mode"] == "K":
        from .c08 import conc_weights
        W = conc_weights(npts, 3)  # concrete non-integer weights: the real find_roots runs
    elif cfg["rational"]:
        W = env.positives("w", npts)
        if env.sym:
            env.patch(heavy, "find_roots", lambda *a, **k: ())
    curve = Curve(list(kv.U), P, W)
    if cfg.get("restate"):
        from .c08 import conc_weights
        u = env.real("u")
        env.assume((t[0] <= u) & (u <= t[-1]))
        d = kv.locate(u)
        Q = make_points(env, "Q", npts, 0)
        W1, W2 = conc_weights(npts, 3), conc_weights(npts, 5)
        states = [("as built", P, None), ("weights set", P, W1), ("weights replaced", P, W2), ("control points replaced", Q, W2),
                  ("weights removed", Q, None), ("control points replaced again", P, None)]
        for tag, pts, w in states:
            if tag.startswith("weights"):
                curve.weights = w
            elif tag.startswith("control"):
                curve.ctrlpoints = pts
            for arg, pick in ((u, lambda r: r), ([u, t[0]], lambda r: r[0]), (u, lambda r: r)):
                val = pick(curve(arg))
                ref = curve_value(kv, pts, w, u, d)
                if w is not None:
                    ref = divnz(ref[0], ref[1])
                env.eq(f"{tag}: curve(u) == sum R_i(u) P_i of the current state", val, ref)
        return
    us = [env.real("u")]
    if cfg["call"] == "seq":
        us.append(env.real("v"))
    inside = True
    for u in us:
        inside = inside & ((t[0] <= u) & (u <= t[-1]))
    try:
        if cfg["call"] == "call":
            vals = [curve(us[0])]
        elif cfg["call"] == "eval":
            vals = [curve.eval(us[0])]
        else:
            res = curve(list(us))
            env.holds("sequence gives one value per node", isinstance(res, tuple) and len(res) == len(us))
            vals = list(res)
    except ValueError:
        env.holds("ValueError only for a parameter outside [umin, umax]", ~inside if not isinstance(inside, bool) else not inside)
        return
    env.holds("a value is returned only inside [umin, umax]", inside)
    for k, (u, val) in enumerate(zip(us, vals)):
        d = kv.locate(u)
        ref = curve_value(kv, P, W, u, d)
        if W is not None:
            ref = divnz(ref[0], ref[1]) if cfg["dim"] == 0 else np.array([divnz(c, ref[1]) for c in ref[0]], dtype=object)
        env.observe(f"value{k}", val)
        env.eq(f"curve(u{k}) == sum R_i(u) P_i", val, ref)
