"""C03  Every reachable KnotVector is a well-formed clamped vector; queries agree; bad requests are
rejected and leave the object unchanged.

Part 1 (constructor): an arbitrary tuple of n symbolic reals (no order assumed), degree None or given:
accepted <=> reference predicate, rejection is ValueError.
Part 2 (inductive step): from every valid state (multiplicity pattern enumerated, values symbolic) one
public operation with symbolic arguments; the result satisfies the invariant and equals the specified
list, or an exception is raised and the object is unchanged."""
from __future__ import annotations

import copy as _copy
from fractions import Fraction

from ..ref import KV
from .. import fam
from ..harness import Unexpected

ID = "C03"
CFG_TIMEOUT_S = {"quick": 300, "thorough": 1800}
MAX_PATHS = 20000
GAP = Fraction(1, 100000)

META = dict(
    technique='symbolic execution of the real KnotVector code on arbitrary tuples / arbitrary valid states (inductive step) + z3 (LRA) per path; reference predicate decided on the same path',
    bounds=dict(
        quick="constructor: arbitrary tuples of length 2..5 (degree None) and 4..5 (degree given 0..2); "
              "operations: every pattern of degree 0..2 with <=2 distinct interior knots; 1-2 symbolic nodes; "
              "ops insert,+=,remove,-=,shift,scale,normalize,degree=,|,&,split,copy,span/mult/valid",
        thorough="constructor tuples up to length 7; patterns of degree 0..3 with <=2 interior knots and degree<=2 with 3; 1-3 nodes",
    ),
    assumptions=[
        "numbers are exact reals (Fraction semantics)",
        "two values handed to the library are either equal or at least 1e-5 apart (the library merges knots closer than 1e-6)",
        "inserting (removing) one copy of *both* end knots together is the library's own degree-elevation (reduction) idiom "
        "(KnotVector.degree setter): the result is a well-formed vector of degree p+1 (p-1) and is accepted by this check",
    ],
    outside=["KnotVector.convert (calls cls(knot): concretises)", "vectors longer than the bound", "float rounding"],
)

OPS = ["insert1", "insert2", "iadd_list", "remove1", "remove2", "isub_list", "shift", "iadd_num", "scale", "normalize",
       "degree", "or", "and", "split", "copy", "queries", "eq"]


def configs(tier, seed):
    cfgs = []
    maxn = 5 if tier == "quick" else 7
    for n in range(2, maxn + 1):
        cfgs.append(dict(name=f"ctor n={n} degree=None", kind="ctor", n=n, degree=None))
    for n in range(2, (5 if tier == "quick" else 6) + 1):
        for deg in range(0, 3):
            if n >= 2 * deg + 2 - 1:
                cfgs.append(dict(name=f"ctor n={n} degree={deg}", kind="ctor", n=n, degree=deg))
    cfgs.append(dict(name="ctor non-numeric", kind="ctor_bad"))
    cfgs.append(dict(name="close knots (no separation assumed)", kind="close"))
    if tier == "quick":
        famy = fam.pattern_family(range(0, 3), 2, seed=seed)
    else:
        famy = fam.pattern_family(range(0, 4), 2, seed=seed)
        famy += [c for c in fam.pattern_family(range(0, 3), 3, seed=seed) if len(c[1]) == 5][seed % 2::2]
    for p, pat in famy:
        for op in OPS:
            if tier == "quick" and op in ("insert2", "remove2") and len(pat) > 3:
                continue
            cfgs.append(dict(name=f"op={op} p={p} mults={pat}", kind="op", op=op, p=p, mults=pat))
        if tier == "thorough" and len(pat) <= 3:
            cfgs.append(dict(name=f"op=insert3 p={p} mults={pat}", kind="op", op="insert3", p=p, mults=pat))
    return cfgs


# -- reference predicate ------------------------------------------------------------------------
def analyse(vec):
    """None if not non-decreasing, else (distinct values, multiplicities); decided by comparisons"""
    vals, mults = [], []
    for x in vec:
        if vals and bool(x == vals[-1]):
            mults[-1] += 1
        elif vals and bool(x < vals[-1]):
            return None
        else:
            vals.append(x)
            mults.append(1)
    return vals, mults


def spec_valid(vec, degree=None):
    if len(vec) < 2:
        return None
    a = analyse(vec)
    if a is None:
        return None
    vals, mults = a
    if len(vals) < 2:
        return None
    p = mults[0] - 1 if degree is None else degree
    n = len(vec) - p - 1
    if mults[0] == p + 1 and mults[-1] == p + 1 and all(m <= p + 1 for m in mults) and n > p:
        return KV(vals, mults, p)
    return None


def separated(env, xs, ys=None):
    """assume: values are pairwise equal or at least GAP apart"""
    pairs = []
    if ys is None:
        pairs = [(a, b) for i, a in enumerate(xs) for b in xs[i + 1:]]
    else:
        pairs = [(a, b) for a in xs for b in ys]
    for a, b in pairs:
        env.assume((a == b) | (a - b >= GAP) | (b - a >= GAP))


def check_state(env, kvobj, ref: KV, tag):
    """the library object agrees with the structural description ref"""
    env.eq(f"{tag}: elements", list(kvobj), list(ref.U))
    env.holds(f"{tag}: degree", kvobj.degree == ref.p)
    env.holds(f"{tag}: npts", kvobj.npts == ref.n)
    env.holds(f"{tag}: len", len(kvobj) == ref.p + ref.n + 1)
    env.eq(f"{tag}: knots", list(kvobj.knots), list(ref.vals))
    env.eq(f"{tag}: limits", list(kvobj.limits), [ref.vals[0], ref.vals[-1]])


def same_objects(env, before, kvobj, tag):
    after = tuple(kvobj)
    env.holds(f"{tag}: object unchanged after the rejected request",
              len(before) == len(after) and all(a is b for a, b in zip(before, after)))


def body(env, cfg):
    from compmec.nurbs import KnotVector

    if cfg["kind"] == "ctor_bad":
        for bad in ["abc", ["a", "b"], [None, None], 1, [[0, 1], [2, 3]], [0, "x", 1], [], [0], None, [1, 0], [0, 0, 1],
                    [0, 1, 1], [0, 0, 0], [0, 0, 1, 0, 1, 1], [0, 0, 0.5, 0.5, 0.5, 1, 1]]:
            try:
                KnotVector(bad)
            except ValueError:
                continue
            except Exception as e:
                raise Unexpected(f"KnotVector({bad!r}) raised {type(e).__name__} instead of ValueError")
            raise Unexpected(f"KnotVector({bad!r}) was accepted")
        env.holds("malformed data rejected with ValueError", True)
        # NaN is not a number a knot vector can hold (outside the solver's reals: checked by enumeration)
        nan = float("nan")
        for bad in ([0, 0, nan, 1, 1], [nan, nan, 1, 1], [0, 0, 1, nan], [0.0, 0.0, 0.5, nan, 1.0, 1.0]):
            try:
                KnotVector(bad)
            except ValueError:
                continue
            raise Unexpected(f"KnotVector({bad!r}) was accepted")
        for name, fn in [("shift(nan)", lambda v: v.shift(nan)), ("+= nan", lambda v: v.__iadd__(nan)), ("scale(nan)", lambda v: v.scale(nan)),
                         ("insert([nan])", lambda v: v.insert([nan]))]:
            v = KnotVector([0, 0, Fraction(1, 2), 1, 1])
            before = tuple(v)
            try:
                fn(v)
            except (ValueError, AssertionError):
                same_objects(env, before, v, name)
                continue
            raise Unexpected(f"{name} was accepted: {tuple(v)!r}")
        env.holds("NaN rejected, object unchanged", True)
        return

    if cfg["kind"] == "close":
        # the separation assumption dropped: distinct knots may be arbitrarily close (known finding F5 lives here)
        t = env.reals("t", 3)
        env.assume(t[0] < t[1])
        env.assume(t[1] < t[2])
        u = env.real("u")
        env.assume((t[0] <= u) & (u <= t[2]))
        ref = KV(t, [2, 1, 2])
        kvobj = KnotVector(list(ref.U))
        check_state(env, kvobj, ref, "close knots")
        d = ref.locate(u)
        env.holds("close knots: span(u)", kvobj.span(u) == ref.span_of(d))
        exp = 0
        for v_, m in zip(t, [2, 1, 2]):
            if bool(u == v_):
                exp = m
        env.holds("close knots: mult(u) = number of occurrences", kvobj.mult(u) == exp)
        return

    if cfg["kind"] == "ctor":
        v = env.reals("v", cfg["n"])
        separated(env, v)
        try:
            kvobj = KnotVector(list(v), cfg["degree"])
        except ValueError:
            ref = spec_valid(v, cfg["degree"])
            env.holds("a well-formed clamped vector is accepted", ref is None)
            return
        ref = spec_valid(v, cfg["degree"])
        if ref is None:
            env.fail("accepted vector is not a well-formed clamped vector (sorted, ends repeated degree+1 times, "
                     "interior multiplicity <= degree+1, npts > degree)")
            return
        check_state(env, kvobj, ref, "ctor")
        return

    # ---- one operation from an arbitrary valid state ----------------------------------------
    p, mults, op = cfg["p"], cfg["mults"], cfg["op"]
    nd = len(mults)
    t = env.ordered("t", nd, GAP)
    ref0 = KV(t, mults)
    kvobj = KnotVector(list(ref0.U))
    check_state(env, kvobj, ref0, "pre")
    before = tuple(kvobj)

    if op in ("insert1", "insert2", "insert3", "iadd_list", "remove1", "remove2", "isub_list"):
        k = {"insert1": 1, "insert2": 2, "insert3": 3, "iadd_list": 1, "remove1": 1, "remove2": 2, "isub_list": 1}[op]
        nodes = env.reals("n", k)
        separated(env, nodes)
        separated(env, nodes, t)
        inserting = op in ("insert1", "insert2", "insert3", "iadd_list")
        try:
            if op.startswith("insert"):
                r = kvobj.insert(list(nodes))
            elif op == "iadd_list":
                r = kvobj
                r += list(nodes)
            elif op.startswith("remove"):
                r = kvobj.remove(list(nodes))
            else:
                r = kvobj
                r -= list(nodes)
        except ValueError:
            same_objects(env, before, kvobj, op)
            check_state(env, kvobj, ref0, "after rejected " + op)
            exp = _expected(ref0, nodes, inserting)
            env.holds(f"{op}: a request whose result is a well-formed vector on the same interval is carried out",
                      exp is None)
            return
        exp = _expected(ref0, nodes, inserting)
        if exp is None:
            env.fail(f"{op}: request leaves the set of well-formed vectors on [umin, umax] (outside the interval, "
                     "excessive multiplicity, absent knot or single end knot) but was accepted")
            return
        env.holds(f"{op}: returns the same instance", r is kvobj)
        check_state(env, kvobj, exp, "after " + op)
        return

    if op in ("shift", "iadd_num"):
        a = env.real("a")
        if op == "shift":
            r = kvobj.shift(a)
        else:
            r = kvobj
            r += a
        env.holds("shift returns the same instance", r is kvobj)
        check_state(env, kvobj, KV([x + a for x in t], mults), "after shift")
        r2 = kvobj - a
        check_state(env, r2, ref0, "after shifting back with -")
        return

    if op == "scale":
        s = env.real("s")
        for a_, b_ in zip(t[:-1], t[1:]):
            env.assume((s <= 0) | (s * (b_ - a_) >= GAP))  # the image keeps the separation
        try:
            kvobj.scale(s)
        except (AssertionError, ValueError):
            env.holds("scale rejects only s <= 0", s <= 0)
            same_objects(env, before, kvobj, op)
            return
        env.holds("a non-positive scale is rejected", s > 0)
        check_state(env, kvobj, KV([x * s for x in t], mults), "after scale")
        return

    if op == "normalize":
        L = t[-1] - t[0]
        for a_, b_ in zip(t[:-1], t[1:]):
            env.assume((b_ - a_) >= GAP * L)  # the image keeps the separation
        kvobj.normalize()
        check_state(env, kvobj, KV([(x - t[0]) / L for x in t], mults), "after normalize")
        env.eq("normalize: interval is exactly [0, 1]", [kvobj[0], kvobj[-1]], [0, 1])
        return

    if op == "degree":
        for newdeg in range(0, p + 3):
            kv2 = KnotVector(list(ref0.U))
            b2 = tuple(kv2)
            diff = newdeg - p
            newm = [m + diff for m in mults]
            vals2 = [v for v, m in zip(t, newm) if m > 0]
            m2 = [m for m in newm if m > 0]
            ok = newm[0] == newdeg + 1 and newm[-1] == newdeg + 1 and all(m >= 0 for m in newm)
            try:
                kv2.degree = newdeg
            except ValueError:
                env.holds(f"degree={newdeg}: representable change is carried out", not ok)
                same_objects(env, b2, kv2, f"degree={newdeg}")
                continue
            if not ok:
                env.fail(f"degree={newdeg} accepted though it is not representable")
                continue
            check_state(env, kv2, KV(vals2, m2, newdeg), f"after degree={newdeg}")
        return

    if op in ("or", "and"):
        # second vector: same ends, shares the interior knots with multiplicities rotated, plus maybe one own knot
        m2 = [p + 1] + [((m % (p + 1)) + 1) for m in mults[1:-1]] + [p + 1]
        other = KnotVector(list(KV(t, m2).U))
        b_other = tuple(other)
        r = (kvobj | other) if op == "or" else (kvobj & other)
        pick = max if op == "or" else min
        check_state(env, r, KV(t, [pick(a, b) for a, b in zip(mults, m2)]), f"U {op} V")
        same_objects(env, before, kvobj, op + " left operand")
        same_objects(env, b_other, other, op + " right operand")
        # different interval
        shifted = KnotVector([x + 1 for x in ref0.U])
        try:
            (kvobj | shifted) if op == "or" else (kvobj & shifted)
        except ValueError:
            same_objects(env, before, kvobj, op + " different interval")
            return
        env.fail(f"{op} of vectors on different intervals did not raise ValueError")
        return

    if op == "split":
        c = env.real("c")
        separated(env, [c], t)
        try:
            pieces = kvobj.split([c])
        except ValueError:
            env.holds("split rejects only cuts outside the interval", (c < t[0]) | (c > t[-1]))
            same_objects(env, before, kvobj, op)
            return
        env.holds("split accepts only cuts inside the interval", (t[0] <= c) & (c <= t[-1]))
        same_objects(env, before, kvobj, op)
        cuts = [t[0]] + ([c] if bool((t[0] < c) & (c < t[-1])) else []) + [t[-1]]
        env.holds("split: number of pieces", len(pieces) == len(cuts) - 1)
        for piece, (a, b) in zip(pieces, zip(cuts[:-1], cuts[1:])):
            vals = [a] + [x for x in t if bool((a < x) & (x < b))] + [b]
            mm = [p + 1] + [mults[t.index(x)] for x in vals[1:-1]] + [p + 1]
            check_state(env, piece, KV(vals, mm, p), "split piece")
        return

    if op == "copy":
        for cp in (_copy.copy(kvobj), _copy.deepcopy(kvobj)):
            check_state(env, cp, ref0, "copy")
            env.holds("copy is a different object", cp is not kvobj)
            cp.shift(1)
            same_objects(env, before, kvobj, "mutating a copy")
        return

    if op == "queries":
        u = env.real("u")
        separated(env, [u], t)
        inside = (t[0] <= u) & (u <= t[-1])
        env.holds("valid(u) <=> u in [umin, umax]", kvobj.valid(u) == bool(inside))
        try:
            sp = kvobj.span(u)
        except ValueError:
            env.holds("span raises only outside", ~inside)
            try:
                kvobj.mult(u)
            except ValueError:
                return
            env.fail("mult(u) did not raise ValueError outside the interval")
            return
        env.holds("span returns only inside", inside)
        d = ref0.locate(u)
        env.holds("span(u) = k with U[k] <= u < U[k+1] (npts-1 at umax)", sp == ref0.span_of(d))
        mu = kvobj.mult(u)
        exp = 0
        for v, m in zip(t, mults):
            if bool(u == v):
                exp = m
        env.holds("mult(u) = number of occurrences", mu == exp)
        env.holds("span/mult of a sequence", kvobj.span([u, t[0]]) == (sp, p) and kvobj.mult([u, t[-1]]) == (mu, p + 1))
        same_objects(env, before, kvobj, "queries")
        return

    if op == "eq":
        same = KnotVector(list(ref0.U))
        env.holds("equal vectors compare equal", bool(kvobj == same) and not bool(kvobj != same))
        env.holds("a list of the same knots compares equal", bool(kvobj == list(ref0.U)))
        a = env.real("a")
        env.assume((a >= GAP) | (a <= -GAP))
        env.holds("a shifted vector compares unequal", not bool(kvobj == (kvobj + a)))
        env.holds("malformed data compares unequal", not bool(kvobj == [1, 0]) and not bool(kvobj == "abc"))
        return
    raise AssertionError(op)


def _expected(ref0: KV, nodes, inserting):
    """structural result of inserting / removing nodes, or None when the request must be rejected"""
    vals = list(ref0.vals)
    mults = list(ref0.mults)
    for nd in nodes:
        hit = None
        for i, v in enumerate(vals):
            if bool(nd == v):
                hit = i
                break
        if inserting:
            if hit is not None:
                mults[hit] += 1
            else:
                if bool(nd < vals[0]) or bool(nd > vals[-1]):
                    return None
                pos = 0
                while bool(vals[pos] < nd):
                    pos += 1
                vals.insert(pos, nd)
                mults.insert(pos, 1)
        else:
            if hit is None or mults[hit] == 0:
                return None
            mults[hit] -= 1
    if mults[0] == 0 or mults[-1] == 0:
        return None
    keep = [(v, m) for v, m in zip(vals, mults) if m > 0]
    vals = [v for v, m in keep]
    mults = [m for v, m in keep]
    if len(vals) < 2:
        return None
    p = mults[0] - 1
    if mults[-1] != p + 1 or any(m > p + 1 for m in mults) or sum(mults) - p - 1 <= p:
        return None
    return KV(vals, mults, p)
