"""C04  Knot insertion never changes the curve and yields exactly the requested knots.

Mode S: knot values, inserted nodes (anywhere on the real line: equal to knots, to each other, to 0,
to the ends, outside), control points and positive weights are solver variables."""
from __future__ import annotations

from fractions import Fraction

import numpy as np

from ..ref import KV, curve_value, divnz
from .. import fam
from .c01 import make_points
from .c03 import _expected, separated, GAP

ID = "C04"
CFG_TIMEOUT_S = {"quick": 400, "thorough": 1800}
MAX_PATHS = 20000

META = dict(
    bounds=dict(
        quick="degree 0..3, <=2 distinct interior knots (all multiplicity patterns for <=1, sampled for 2), 1-2 inserted nodes; "
              "polynomial (scalar / 2-D points) and rational (degree<=2)",
        thorough="degree 0..4, <=2 interior knots all patterns, 1-3 nodes; rational up to degree 2 (two nodes) / degree 3 (one node)",
    ),
    assumptions=[
        "numbers are exact reals (Fraction semantics); float rounding is not modelled",
        "knots and nodes are pairwise equal or at least 1e-5 apart",
        "weights > 0; heavy.find_roots stubbed to () while weights are symbolic",
    ],
    outside=["more than 3 simultaneous nodes", "degree >= 5", "float rounding"],
)


def configs(tier, seed):
    cfgs = []
    if tier == "quick":
        famy = fam.pattern_family(range(0, 4), 1, seed=seed)
        famy += [c for c in fam.pattern_family(range(0, 4), 2, seed=seed) if len(c[1]) == 4][seed % 3::3]
    else:
        famy = fam.pattern_family(range(0, 5), 2, seed=seed)
    for k, (p, pat) in enumerate(famy):
        for nn in ((1, 2) if tier == "quick" else (1, 2, 3)):
            if nn == 3 and (len(pat) > 3 or p > 3):
                continue
            if nn == 2 and len(pat) > 3 and p > 2 and tier == "quick":
                continue
            dim = 2 if (k + nn + seed) % 3 == 0 else 0
            cfgs.append(dict(name=f"p={p} mults={pat} nodes={nn} pol dim={dim}", p=p, mults=pat, nn=nn, rational=False, dim=dim))
            if ((1 <= p <= 2 and nn <= 2) or (p == 3 and nn == 1 and tier == "thorough")) and len(pat) <= 3 + (nn == 1):
                cfgs.append(dict(name=f"p={p} mults={pat} nodes={nn} rat dim=0", p=p, mults=pat, nn=nn, rational=True, dim=0))
    # int-typed data (Python ints and numpy integer arrays): a rational curve with int weights and int control points on Fraction knots
    for k, (p, pat, ivals) in enumerate([(2, [3, 1, 3], [0, 1, 2]), (1, [2, 1, 2], [-1, 0, 3]), (3, [4, 4], [0, 2])]):
        for how in ("python ints", "numpy ints"):
            cfgs.append(dict(name=f"int data p={p} mults={pat} knots={ivals} rat ({how})", p=p, mults=pat, nn=1, rational=True, dim=0,
                             intdata=how, ivals=ivals))
    return cfgs


def snapshot(curve):
    return (tuple(curve.knotvector), curve.ctrlpoints, curve.weights)


def unchanged(env, curve, snap, tag):
    kv, cp, w = snapshot(curve)
    ok = len(kv) == len(snap[0]) and all(a is b for a, b in zip(kv, snap[0]))
    ok = ok and (cp is None) == (snap[1] is None) and (cp is None or (len(cp) == len(snap[1]) and all(a is b for a, b in zip(cp, snap[1]))))
    ok = ok and (w is None) == (snap[2] is None) and (w is None or (len(w) == len(snap[2]) and all(a is b for a, b in zip(w, snap[2]))))
    env.holds(f"{tag}: knot vector, control points and weights are exactly as before", ok)


def same_function(env, kv_old, P, W, kv_new, Q, Wq, dim, tag):
    """for every knot interval of the new vector the two curves are the same function of u"""
    u = env.real("u")
    for d2 in range(kv_new.nint):
        d1 = kv_old.locate(kv_new.vals[d2])
        a = curve_value(kv_old, P, W, u, d1)
        b = curve_value(kv_new, Q, Wq, u, d2)
        if W is not None:
            a = divnz(a[0], a[1]) if dim == 0 else np.array([divnz(c, a[1]) for c in a[0]], dtype=object)
        if Wq is not None:
            b = divnz(b[0], b[1]) if dim == 0 else np.array([divnz(c, b[1]) for c in b[0]], dtype=object)
        env.eq(f"{tag}: same function of u on new interval {d2}", b, a)


def body(env, cfg):
    from compmec.nurbs import Curve
    from compmec.nurbs import heavy

    p, mults = cfg["p"], cfg["mults"]
    if cfg.get("intdata"):
        t = [Fraction(v) for v in cfg["ivals"]]   # (int knots make the library divide ints: floats, compared elsewhere with tolerance)
        kv = KV(t, mults)
        P = [int((7 * i * i - 3 * i) % 11 - 4) for i in range(kv.n)]
        W = [int(1 + (5 * i + 2) % 4) for i in range(kv.n)]
        node = env.real("n0")
        env.assume((node >= t[0]) & (node <= t[-1]))
        separated(env, [node], t)
        if env.sym:
            env.patch(heavy, "find_roots", lambda *a, **k: ())
        if cfg["intdata"] == "numpy ints":
            curve = Curve(list(kv.U), np.array(P), np.array(W))
        else:
            curve = Curve(list(kv.U), list(P), list(W))
        exp = _expected(kv, [node], True)
        try:
            curve.knot_insert([node])
        except ValueError:
            env.holds("a valid request (multiplicities <= degree+1) is carried out", exp is None or exp.p != p)
            return
        if exp is None or exp.p != p:
            env.fail("knot_insert accepted a request that pushes a multiplicity above degree+1")
            return
        env.eq("knot vector is the sorted multiset union", list(curve.knotvector), list(exp.U))
        same_function(env, kv, P, W, exp, list(curve.ctrlpoints), list(curve.weights), 0, "knot_insert (int data)")
        return
    t = env.ordered("t", len(mults), GAP)
    kv = KV(t, mults)
    P = make_points(env, "P", kv.n, cfg["dim"])
    W = None
    if cfg["rational"]:
        W = env.positives("w", kv.n)
        if env.sym:
            env.patch(heavy, "find_roots", lambda *a, **k: ())
    nodes = env.reals("n", cfg["nn"])
    separated(env, nodes)
    separated(env, nodes, t)
    curve = Curve(list(kv.U), P, W)
    snap = snapshot(curve)
    try:
        curve.knot_insert(list(nodes))
    except ValueError:
        exp = _expected(kv, nodes, True)
        env.holds("a valid request (nodes inside the interval, multiplicities <= degree+1) is carried out",
                  exp is None or exp.p != p)
        unchanged(env, curve, snap, "rejected knot_insert")
        return
    exp = _expected(kv, nodes, True)
    if exp is None or exp.p != p:
        env.fail("knot_insert accepted a request that lies outside the interval or pushes a multiplicity above degree+1")
        return
    env.eq("knot vector is the sorted multiset union", list(curve.knotvector), list(exp.U))
    env.holds("degree unchanged", curve.degree == p)
    Q = curve.ctrlpoints
    Wq = curve.weights
    env.holds("number of control points", len(Q) == exp.n and (W is None) == (Wq is None) and (Wq is None or len(Wq) == exp.n))
    env.observe("Q", [q for q in Q])
    same_function(env, kv, P, W, exp, list(Q), None if Wq is None else list(Wq), cfg["dim"], "knot_insert")
