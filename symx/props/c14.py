"""C14  clean() reaches the unique minimal representation without changing the curve.

Mode K.  minimal: a minimal curve (U0, P0) -- symbolic P0 with a margin: every knot carries a jump of
its critical derivative of size >= 1 and every curve has a p-th derivative of size >= 1 somewhere -- is
refined by an enumerated history of real knot_insert / degree_increase calls; knot_clean, degree_clean
and clean in every order must return exactly (U0, P0), and a second call must change nothing.
arbitrary: arbitrary curves (two symbolic control points): clean is idempotent, the result stays within
the tolerance of the original."""
from __future__ import annotations

import itertools
from fractions import Fraction

import numpy as np

from ..ref import KV, Poly
from .. import fam, kmode
from .c01 import make_points
from .c07 import _mixed_points

ID = "C14"
CFG_TIMEOUT_S = {"quick": 500, "thorough": 1800}
F = Fraction
MARGIN = 10 ** 4  # derivative jumps this large cannot be removed within 1e-9 on spans of length >= 1/5 up to degree 4

META = dict(
    bounds=dict(
        quick="minimal curves: degree 1..3 with 0-2 interior knots (sampled patterns, non-uniform values), control points symbolic "
              "(<= 4) or three symbolic + fixed; histories of 1-2 insert/elevate operations; clean orders: clean | knot,degree | degree,knot | "
              "clean,clean; arbitrary curves: degree 1..2",
        thorough="histories up to length 3, all patterns of degree 1..3 with <= 2 interior knots",
    ),
    assumptions=["Fraction knots, exact arithmetic, polynomial curves",
                 "margin: at every interior knot of multiplicity m the jump of the (p-m+1)-th derivative is >= 10^4 in absolute value, and "
                 "the p-th derivative is >= 10^4 in absolute value on every span (so that nothing is removable within 1e-9; a margin of 1 "
                 "was not enough: a third-derivative jump of 1 on a span of length 1/5 is removable within the tolerance)"],
    outside=["rational clean() (the maintainers' own test is skipped as 'Needs correction'; see F17)", "symbolic knots",
             "curves inside the tolerance band of a lower representation"],
)

HIST_OPS = ["ins_new", "ins_new2", "ins_old", "elev"]
ORDERS = [("clean",), ("knot_clean", "degree_clean"), ("degree_clean", "knot_clean"), ("clean", "clean"), ("knot_clean", "clean")]


def configs(tier, seed):
    cfgs = []
    famy = [c for c in fam.pattern_family(range(1, 4), 2, seed=seed) if all(m <= c[0] for m in c[1][1:-1])]
    famy = [(0, [1, 1]), (0, [1, 1, 1])] + famy  # constant and piecewise constant curves (jumps at the interior knots)
    if tier == "quick":
        famy = [c for i, c in enumerate(famy) if len(c[1]) <= 3 or (i + seed) % 4 == 0]
    hl = 2 if tier == "quick" else 3
    for i, (p, pat) in enumerate(famy):
        vals = fam.concrete_values(len(pat), seed, i)
        base = dict(p=p, mults=pat, vals=[str(v) for v in vals])
        hists = [h for n in range(1, hl + 1) for h in itertools.product(HIST_OPS, repeat=n)]
        hists = [h for h in hists if not (len(pat) == 2 and "ins_old" in h) and sum(1 for o in h if o == "elev") <= (1 if p >= 3 else 2)]
        if tier == "quick":
            hists = hists[(i + seed) % 3::3]
            if p <= 2:
                # two elevations and an insertion afterwards: a degree drop of 2 is removable while an interior knot has lower multiplicity
                hists.append(("elev", "elev", "ins_new") if (i + seed) % 2 or len(pat) == 2 else ("elev", "elev", "ins_old"))
        if p == 0:
            hists = [h for h in itertools.product(HIST_OPS, repeat=1)] + [("ins_new", "elev"), ("elev", "ins_new"), ("ins_new", "ins_new2")]
            hists = [h for h in hists if not (len(pat) == 2 and "ins_old" in h)]
            for h in hists:
                for order in ORDERS:
                    cfgs.append(dict(name=f"minimal p={p} mults={pat} hist={'+'.join(h)} then {'+'.join(order)}", kind="minimal",
                                     hist=list(h), order=list(order), **base))
            continue
        for k, h in enumerate(hists):
            order = ORDERS[(i + k + seed) % len(ORDERS)] if len(h) < 3 or tier != "quick" else ("degree_clean", "knot_clean")
            cfgs.append(dict(name=f"minimal p={p} mults={pat} hist={'+'.join(h)} then {'+'.join(order)}", kind="minimal", hist=list(h),
                             order=list(order), **base))
        if p <= 2:
            cfgs.append(dict(name=f"arbitrary p={p} mults={pat}", kind="arbitrary", **base))
        if 1 <= p <= 2 and len(pat) >= 3:
            # an explicit tolerance is the one that decides every removal, whichever call carries it
            for t, (tol, call) in enumerate([("1/100000000000000", "clean"), ("1/100000000000000", "knot_clean kw"), ("1/10000", "knot_clean pos"),
                                             ("1/100000000000000", "degree_clean"), ("1/10000", "clean"), ("0", "clean"), ("0", "degree_clean")]):
                if tier == "quick" and (t + i + seed) % 2:
                    continue
                cfgs.append(dict(name=f"arbitrary p={p} mults={pat} tolerance={tol} via {call}", kind="arbitrary", tol=tol, call=call, **base))
    return cfgs


def derivative_jump(kv: KV, P, j, order):
    """jump of the order-th derivative at interior knot j (linear in P)"""
    left = kmode.piece(kv, P, j - 1)
    right = kmode.piece(kv, P, j)
    for _ in range(order):
        left, right = left.derivative(), right.derivative()
    z = kv.vals[j]
    return right(z) - left(z)


def top_derivative(kv: KV, P, d):
    q = kmode.piece(kv, P, d)
    for _ in range(kv.p):
        q = q.derivative()
    return q(kv.vals[d])


def body(env, cfg):
    from compmec.nurbs import Curve

    p, mults = cfg["p"], cfg["mults"]
    vals = [F(v) for v in cfg["vals"]]
    kv = KV(vals, mults)
    if cfg["kind"] == "minimal":
        if kv.n <= 4:
            P0 = env.reals("P", kv.n)
        else:
            P0 = _mixed_points(env, "P", kv.n, {0, kv.n // 2, kv.n - 1}, p)
        # margin: nothing is removable
        for j in range(1, len(vals) - 1):
            jump = derivative_jump(kv, P0, j, p - mults[j] + 1)
            env.assume((jump >= MARGIN) | (jump <= -MARGIN))
        for d in range(kv.nint):
            top = top_derivative(kv, P0, d)
            env.assume((top >= MARGIN) | (top <= -MARGIN))
        c = Curve(list(kv.U), P0)
        mid = [(a + b) / 2 for a, b in zip(vals[:-1], vals[1:])]
        for k, op in enumerate(cfg["hist"]):
            if op == "ins_new":
                z = mid[k % len(mid)]
                if list(c.knotvector).count(z) < max(c.degree, 1):   # (a degree-0 curve takes a simple knot)
                    c.knot_insert([z])
            elif op == "ins_new2":
                z = (2 * vals[0] + vals[-1]) / 3
                z = z if z not in vals else (3 * vals[0] + vals[-1]) / 4
                have = list(c.knotvector).count(z)
                if have + 2 <= c.degree:
                    c.knot_insert([z, z])
                elif have + 1 <= c.degree:
                    c.knot_insert([z])
            elif op == "ins_old":
                z = vals[1]
                if list(c.knotvector).count(z) < c.degree:
                    c.knot_insert([z])
            elif op == "elev":
                c.degree_increase(1)
        for step in cfg["order"]:
            getattr(c, step)()
        env.holds("clean reaches the minimal knot vector", list(c.knotvector) == list(kv.U) and c.degree == p)
        env.eq("clean reaches the minimal control points (identical for every history)", list(c.ctrlpoints), list(P0))
        snap = kmode.snapshot(c)
        c.clean()
        c.knot_clean()
        c.degree_clean()
        kmode.unchanged(env, c, snap, "second clean")
        return

    # arbitrary curve: idempotence and tolerance
    P = _mixed_points(env, "P", kv.n, {0, min(1, kv.n - 1)}, p + 1)
    c = Curve(list(kv.U), P)
    tol = (0 if cfg["tol"] == "0" else F(cfg["tol"])) if cfg.get("tol") else None
    call = cfg.get("call", "clean")
    if tol is None:
        c.clean()
    elif call == "clean":
        c.clean(tol)
    elif call == "knot_clean kw":
        c.knot_clean(tolerance=tol)
    elif call == "knot_clean pos":
        c.knot_clean(None, tol)
    else:
        c.degree_clean(tol)
    kv1 = kmode.lib_kv(c)
    Q = list(c.ctrlpoints)
    # an upper bound on the number of accepted removals / reductions that lead to this final state; each of them stays
    # within the tolerance in force, so (triangle inequality in L2) the total deviation stays within steps^2 times that
    steps = (p - c.degree) + sum(m for m in mults[1:-1]) - sum(kv1.mults[1:-1])
    env.note(f"{call} removed degree {p - c.degree}x, knots: {mults} -> {kv1.mults}")
    if steps > 0:
        bound = steps * steps * 2 * (tol if tol is not None else F(1e-9)) * max(1, vals[-1] - vals[0])
        for k, e in enumerate(kmode.l2_sq(kv, P, kv1, Q)):
            env.holds(f"<= {steps} accepted removals: integral of squared deviation <= steps^2 * 2*tolerance*max(1,L) (coord {k})", e <= bound)
    if tol is not None:
        return
    snap = kmode.snapshot(c)
    c.clean()
    kmode.unchanged(env, c, snap, "clean is idempotent")
    for name in ("knot_clean", "degree_clean"):
        c2 = Curve(list(kv.U), P)
        getattr(c2, name)()
        s2 = kmode.snapshot(c2)
        getattr(c2, name)()
        kmode.unchanged(env, c2, s2, f"{name} is idempotent")
    if kv1.vals == kv.vals and kv1.mults == kv.mults and c.degree == p:
        env.eq("nothing removed: control points untouched", Q, list(P))
