"""C15  Curves stay consistent; failed operations are atomic; operands stay untouched.

Inductive step over the public Curve API: from an arbitrary consistent curve (concrete Fraction knot
vector from a family, symbolic control points / nodes / scalars) one operation with valid or invalid
arguments.  success => len(ctrlpoints) = npts = len(knotvector) - degree - 1 (= len(weights)) and the
curve evaluates; exception => knot vector, control points and weights exactly as before;
non-mutating operation => operands exactly as before.  Also: copies and curves sharing one KnotVector
object are independent."""
from __future__ import annotations

import copy as _copy
from fractions import Fraction

import numpy as np

from ..ref import KV
from .. import fam, kmode
from .c01 import make_points
from .c03 import separated, GAP
from .c07 import _mixed_points
from .c08 import conc_weights

ID = "C15"
CFG_TIMEOUT_S = {"quick": 500, "thorough": 1800}
MAX_PATHS = 20000
F = Fraction

MUTATORS = ["knot_insert", "knot_insert2", "knot_remove", "knot_remove_real", "knot_clean", "degree_increase", "degree_decrease",
            "degree_setter", "clean", "knotvector_setter", "knotvector_inplace", "ctrlpoints_setter", "weights_setter", "update", "apply", "apply_bad", "insert_typeerror",
            "fit_points_bad", "fit_curve_bad", "fit_points", "fit_curve"]
PURE = ["eval", "arith", "eq", "split", "fraction", "copy", "derivate", "integrate", "fit_source", "shared"]

META = dict(
    bounds=dict(
        quick="curves on 6 concrete vectors (degree 1..3, 0-2 interior knots incl. repeated), polynomial and rational (concrete weights); "
              "20 mutating operations (valid, invalid and borderline arguments: symbolic nodes anywhere on the real line, wrong lengths, "
              "wrong shapes, other intervals) and 10 non-mutating ones; one operation per run from an arbitrary state",
        thorough="12 vectors; additionally every ordered pair of mutators applied in sequence",
    ),
    assumptions=["Fraction knots; symbolic control points (operations that test a tolerance: two symbolic control points, the others fixed)",
                 "rational curves carry concrete positive weights; heavy.find_roots stubbed to () in the symbolic runs where symbolic nodes flow into the weights", "nodes are equal to a knot or at least 1e-5 away from it"],
    outside=["sequences longer than 2 (covered by the inductive step only)", "symbolic knots (see C03/C04 for those)",
             "Projection / Intersection purity (C19 / C20)"],
)

VECTORS = [
    (1, [0, 1], [2, 2]),
    (2, [0, F(1, 3), 1], [3, 1, 3]),
    (1, [-1, 0, 2], [2, 2, 2]),
    (3, [0, 2], [4, 4]),
    (2, [0, 1, F(5, 2), 3], [3, 2, 1, 3]),
    (3, [0, F(1, 2), 1], [4, 2, 4]),
    (2, [0, 1, 2], [3, 3, 3]),
    (1, [0, F(1, 4), F(1, 2), 1], [2, 1, 1, 2]),
    (3, [-2, 0, 1], [4, 1, 4]),
    (2, [0, 4], [3, 3]),
    (1, [0, 1, 3], [2, 1, 2]),
    (3, [0, 1, 2, 3], [4, 1, 3, 4]),
]


def configs(tier, seed):
    cfgs = []
    vecs = VECTORS[:6] if tier == "quick" else VECTORS
    for k, (p, vals, mults) in enumerate(vecs):
        base = dict(p=p, vals=[str(F(v)) for v in vals], mults=mults)
        for op in MUTATORS + PURE:
            for rat in (False, True):
                if rat and (op in ("fit_points", "fit_curve", "fit_curve_bad", "fit_source", "knot_remove_real", "degree_decrease", "clean",
                                   "knot_clean", "update", "derivate", "integrate", "knotvector_setter", "knotvector_inplace") or (k + len(op) + seed) % 2
                            or (op == "shared" and sum(mults) - p - 1 > 3)):
                    continue
                cfgs.append(dict(name=f"vec{k} {op}{' rat' if rat else ''}", kind="one", op=op, rat=rat, **base))
        if tier == "thorough":
            seqs = ["knot_insert", "knot_remove_real", "degree_increase", "degree_decrease", "knotvector_setter", "apply_bad", "ctrlpoints_setter"]
            for a in seqs:
                for b in seqs:
                    cfgs.append(dict(name=f"vec{k} {a} then {b}", kind="two", ops=[a, b], rat=False, **base))
    return cfgs


class ExactPoint:
    """a user-defined exact point: point + point and (int | Fraction) * point; a float factor is refused"""

    def __init__(self, x, y):
        self.x, self.y = x, y

    def __add__(self, o):
        if not isinstance(o, ExactPoint):
            return NotImplemented
        return ExactPoint(self.x + o.x, self.y + o.y)

    def __rmul__(self, k):
        if isinstance(k, (float, np.floating)):
            raise TypeError("ExactPoint cannot be scaled by a float")
        return ExactPoint(k * self.x, k * self.y)


def consistent(env, c, tag):
    kv = c.knotvector
    ok = c.ctrlpoints is not None and len(c.ctrlpoints) == c.npts == len(kv) - c.degree - 1
    ok = ok and (c.weights is None or len(c.weights) == c.npts)
    env.holds(f"{tag}: len(ctrlpoints) = npts = len(knotvector) - degree - 1 (= len(weights))", ok)
    if not ok:
        return
    lo, hi = kv[0], kv[-1]
    try:
        for u in (lo, hi, (lo + hi) / 2, (2 * lo + hi) / 3):
            c(u)
    except Exception as e:  # noqa
        env.fail(f"{tag}: the curve no longer evaluates on its interval ({type(e).__name__}: {str(e)[:60]})")


def run_op(env, c, op, kv, tag, concrete=False):
    """performs one mutating operation with (partly symbolic) arguments.
    returns 'ok' or 'exc'; raises nothing"""
    from compmec.nurbs import Curve
    vals = kv.vals
    lo, hi = vals[0], vals[-1]
    n = kv.n
    try:
        if op == "knot_insert" and concrete:
            c.knot_insert([(lo + 2 * hi) / 3 + F(1, 97)])
        elif op == "knot_insert":
            x = env.real(f"{tag}x")
            separated(env, [x], vals)
            c.knot_insert([x])
        elif op == "knot_insert2":
            x = env.real(f"{tag}x")
            other = (lo + hi) / 2 if (lo + hi) / 2 not in vals else (lo + 2 * hi) / 3
            separated(env, [x], list(vals) + [other])
            c.knot_insert([x, other])
        elif op == "knot_remove":
            x = env.real(f"{tag}x")
            separated(env, [x], vals)
            c.knot_remove([x])
        elif op == "knot_remove_real":
            c.knot_remove([vals[len(vals) // 2]])
        elif op == "knot_clean":
            c.knot_clean()
        elif op == "degree_increase":
            c.degree_increase(1)
        elif op == "degree_decrease":
            c.degree_decrease(1)
        elif op == "degree_setter":
            c.degree = kv.p + 1
            c.degree = kv.p + 3 if kv.p < 2 else kv.p + 2
        elif op == "clean":
            c.clean()
        elif op == "knotvector_setter":
            which = env.real(f"{tag}w", nice=(0, 3))
            env.assume((which == 0) | (which == 1) | (which == 2))
            if bool(which == 0):
                c.knotvector = sorted(list(kv.U) + [(lo + 3 * hi) / 4])          # refinement: fine
            elif bool(which == 1):
                c.knotvector = [x + 1 for x in kv.U]                             # other interval: must raise
            else:
                c.knotvector = [lo] * kv.p + [hi] * kv.p if kv.p > 0 else [lo, hi]  # coarser: raises unless representable
        elif op == "knotvector_inplace":
            # the statement `curve.knotvector += [x]`: getter, KnotVector.__iadd__ on the object the getter returned, setter
            x = env.real(f"{tag}x")
            separated(env, [x], vals)
            c.knotvector += [x]
        elif op == "ctrlpoints_setter":
            which = env.real(f"{tag}w", nice=(0, 3))
            env.assume((which == 0) | (which == 1) | (which == 2) | (which == 3))
            if bool(which == 0):
                c.ctrlpoints = [2 * pt for pt in c.ctrlpoints]
            elif bool(which == 1):
                c.ctrlpoints = list(c.ctrlpoints) + [c.ctrlpoints[0]]           # wrong length
            elif bool(which == 2):
                c.ctrlpoints = "abc"
            else:
                c.ctrlpoints = 1
        elif op == "weights_setter":
            which = env.real(f"{tag}w", nice=(0, 3))
            env.assume((which == 0) | (which == 1) | (which == 2) | (which == 3) | (which == 4) | (which == 5))
            if bool(which == 0):
                c.weights = conc_weights(n, 9)
            elif bool(which == 3):
                c.weights = conc_weights(n + 1, 9)                                 # one weight too many (all positive)
            elif bool(which == 4):
                c.weights = conc_weights(n - 1, 9)                                 # one weight too few (all positive)
            elif bool(which == 5):
                c.weights = [-w for w in conc_weights(n + 2, 4)]                   # all negative, wrong length
            elif bool(which == 1):
                c.weights = [F(1)] + [F(-1)] * (n - 1)                            # weight function crosses zero
            else:
                c.weights = [F(1), "a"] + [F(1)] * (n - 2)
        elif op == "update":
            which = env.real(f"{tag}w", nice=(0, 3))
            env.assume((which == 0) | (which == 1))
            if bool(which == 0):
                c.update(sorted(list(kv.U) + [(2 * lo + hi) / 3]))
            else:
                c.update([lo - 1] * (kv.p + 1) + [hi] * (kv.p + 1))
        elif op == "apply":
            newv = sorted(list(kv.U) + [(lo + hi) / 2]) if (lo + hi) / 2 not in vals else sorted(list(kv.U) + [(lo + 2 * hi) / 3])
            from compmec.nurbs import heavy
            node = [x for x in newv if newv.count(x) != list(kv.U).count(x)][0]
            c.apply(newv, heavy.Operations.knot_insert(tuple(kv.U), (node,)))
        elif op == "apply_bad":
            newv = sorted(list(kv.U) + [(lo + hi) / 2]) if (lo + hi) / 2 not in vals else sorted(list(kv.U) + [(lo + 2 * hi) / 3])
            c.apply(newv, np.eye(n, dtype=object))                                # matrix of the wrong shape
        elif op == "insert_typeerror":
            # a user point type that refuses float factors, on a curve with float weights: scaling the points by the weights
            # raises TypeError in the middle of apply()
            bad = Curve(list(kv.U), [ExactPoint(F(i), F(2 * i + 1)) for i in range(n)], [float(w) for w in conc_weights(n, 5)])
            sbad = kmode.snapshot(bad)
            try:
                bad.knot_insert([(lo + hi) / 2 if (lo + hi) / 2 not in vals else (lo + 2 * hi) / 3])
            except TypeError:
                kmode.unchanged(env, bad, sbad, "knot_insert that raised TypeError")
                raise
        elif op == "fit_points_bad":
            c.fit_points([F(1)] * (n - 1))
        elif op == "fit_curve_bad":
            c.fit_curve(Curve([lo - 1] * 2 + [hi] * 2, [F(0), F(1)]))
        elif op == "fit_points":
            c.fit_points([F(i * i, 3) for i in range(2 * n + 1)])
        elif op == "fit_curve":
            c.fit_curve(Curve([lo] * 2 + [hi] * 2, [env.real(f"{tag}s0"), env.real(f"{tag}s1")]))
        else:
            raise AssertionError(op)
    except (ValueError, TypeError, AssertionError, ZeroDivisionError, IndexError, NotImplementedError) as e:
        env.note(f"{op}: {type(e).__name__}")
        return "exc"
    return "ok"


def make_curve(env, cfg, prefix="P"):
    from compmec.nurbs import Curve
    vals = [F(v) for v in cfg["vals"]]
    kv = KV(vals, cfg["mults"])
    needs_band = cfg.get("op") in ("knot_remove_real", "degree_decrease", "clean", "knot_clean", "knotvector_setter", "update", "shared", "arith") or cfg["kind"] == "two"
    if needs_band:
        P = _mixed_points(env, prefix, kv.n, {0, kv.n - 1}, cfg["p"])
    else:
        P = env.reals(prefix, kv.n)
    W = conc_weights(kv.n, 13) if cfg["rat"] else None
    if W is not None and env.sym and cfg.get("op") != "weights_setter":
        # symbolic nodes / scalars flow into the new weights: the float sampling of find_roots cannot run on them
        from compmec.nurbs import heavy
        env.patch(heavy, "find_roots", lambda *a, **k: ())
    return kv, P, W, Curve(list(kv.U), P, W)


def body(env, cfg):
    from compmec.nurbs import Curve, KnotVector
    from compmec.nurbs.calculus import Derivate, Integrate

    kv, P, W, c = make_curve(env, cfg)
    vals = kv.vals
    lo, hi = vals[0], vals[-1]
    if cfg["kind"] == "two":
        for k, op in enumerate(cfg["ops"]):
            snap = kmode.snapshot(c)
            kvnow = kmode.lib_kv(c)
            r = run_op(env, c, op, kvnow, f"s{k}", concrete=True)
            if r == "exc":
                kmode.unchanged(env, c, snap, f"step {k} ({op}) raised")
            else:
                consistent(env, c, f"after step {k} ({op})")
        return

    op = cfg["op"]
    if op in MUTATORS:
        snap = kmode.snapshot(c)
        r = run_op(env, c, op, kv, "a")
        if r == "exc":
            kmode.unchanged(env, c, snap, f"{op} raised")
            consistent(env, c, f"after failed {op}")
        else:
            consistent(env, c, f"after {op}")
        return

    # non-mutating operations
    snap = kmode.snapshot(c)
    if op == "eval":
        u = env.real("u")
        for arg in (u, [u, lo], (hi,)):
            try:
                c(arg)
                c.eval(arg)
            except ValueError:
                pass
    elif op == "arith":
        Q = env.reals("Q", kv.n)
        o = Curve(list(kv.U), Q)
        so = kmode.snapshot(o)
        s = env.real("s")
        for fn in (lambda: c + o, lambda: c - o, lambda: c * o, lambda: -c, lambda: c + s, lambda: s * c, lambda: c * s, lambda: s - c,
                   lambda: c + Curve([lo - 1, lo - 1, hi, hi], [F(0), F(1)])):
            try:
                fn()
            except ValueError:
                pass
        kmode.unchanged(env, o, so, "arithmetic: other operand")
        # join with curves of lower and of higher degree placed after / before this one
        for deg in ((max(kv.p - 1, 0), kv.p + 1) if W is None else ()):  # (rational join: known finding F13)
            right = Curve([hi] * (deg + 1) + [hi + 2] * (deg + 1), [F(3 * i - 1, 2) for i in range(deg + 1)])
            left = Curve([lo - 1] * (deg + 1) + [lo] * (deg + 1), [F(2 - i, 3) for i in range(deg + 1)])
            sr, sl = kmode.snapshot(right), kmode.snapshot(left)
            c | right
            left | c
            kmode.unchanged(env, right, sr, "join: right operand")
            kmode.unchanged(env, left, sl, "join: left operand")
    elif op == "eq":
        Q = env.reals("Q", kv.n)
        o = Curve(list(kv.U), Q)
        so = kmode.snapshot(o)
        c == o
        c != o
        c == 1
        kmode.unchanged(env, o, so, "==: other operand")
    elif op == "split":
        x = env.real("x")
        separated(env, [x], vals)
        try:
            c.split([x])
        except (ValueError, AssertionError):
            pass
        # the pieces are curves of their own: changing them (as Projection / Intersection do with clean()) leaves the operand alone
        for pieces in (c.split(), c.split([]), c.split([lo, hi])):
            for pc in pieces:
                env.holds("split: a piece is not the operand itself", pc is not c)
                if pc.knotvector[0] != pc.knotvector[-1]:
                    pc.degree_increase(1)
                pc.ctrlpoints = [3 * pt for pt in pc.ctrlpoints]
                pc.knotvector.shift(1)
    elif op == "fraction":
        num, den = c.fraction()
        if hasattr(num, "ctrlpoints"):
            num.ctrlpoints = [2 * pt for pt in num.ctrlpoints]
    elif op == "copy":
        for cp in (_copy.copy(c), _copy.deepcopy(c)):
            cp.knotvector.shift(2)  # the copy's own knot vector object, changed in place before anything else
            cp.knotvector.shift(-2)
            probe = _copy.deepcopy(cp)
            probe.knotvector.scale(3)
            env.holds("a copy does not share its KnotVector object with the original",
                      cp.knotvector is not c.knotvector and probe.knotvector is not c.knotvector and list(c.knotvector) == list(kv.U))
            env.holds("a copy has the same state", list(cp.knotvector) == list(c.knotvector) and len(cp.ctrlpoints) == len(c.ctrlpoints)
                      and (cp.weights is None) == (c.weights is None))
            env.eq("copy: same control points", list(cp.ctrlpoints), list(c.ctrlpoints))
            cp.knot_insert([(lo + hi) / 2] if (lo + hi) / 2 not in vals else [(lo + 2 * hi) / 3])
            cp.ctrlpoints = [3 * pt for pt in cp.ctrlpoints]
            cp.degree_increase(1)
            cp.knotvector.shift(1)  # even mutating the copy's knot vector object
    elif op == "derivate":
        Derivate(c)
    elif op == "integrate":
        Integrate.scalar(c)
        Integrate.scalar(c, method="closed-newton-cotes", nnodes=3)
    elif op == "fit_source":
        t = Curve([lo] * (kv.p + 2) + [hi] * (kv.p + 2))
        t.fit_curve(c)
        t2 = Curve([lo, lo, hi, hi])
        t2.fit_curve(c, nodes=(lo, hi))
    elif op == "shared":
        # every mutator on its own, each time from a fresh pair of curves built on ONE KnotVector object
        mid = (lo + hi) / 2 if (lo + hi) / 2 not in vals else (lo + 2 * hi) / 3
        Q = env.reals("Q", kv.n)

        def m_insert(a):
            a.knot_insert([mid])

        def m_elev(a):
            a.degree_increase(1)

        def m_setter(a):
            a.degree = a.degree + 2

        def m_remove(a):
            a.knot_remove([vals[len(vals) // 2]], None)

        def m_reduce(a):
            a.degree_decrease(1, None)

        def m_kvset(a):
            a.knotvector = sorted(list(a.knotvector) + [(3 * lo + hi) / 4])

        def m_clean(a):
            a.clean()

        muts = [("knot_insert", m_insert), ("degree_increase", m_elev), ("degree setter", m_setter)]
        if W is None:  # (tolerance / fitting operations of rational curves: known finding F17)
            if len(vals) > 2:
                muts.append(("knot_remove", m_remove))
            if kv.p >= 1:
                muts.append(("degree_decrease", m_reduce))
            muts += [("knotvector setter", m_kvset), ("clean", m_clean)]
        # a curve that has no control points yet, on the same KnotVector object as one that has
        shared = KnotVector(list(kv.U))
        before = list(shared)
        bare, b = Curve(shared), Curve(shared, Q)
        sb = kmode.snapshot(b)
        bare.knot_insert([mid])
        bare.degree_increase(1)
        kmode.unchanged(env, b, sb, "shared KnotVector: knot_insert / degree_increase on a curve without control points")
        env.holds("shared KnotVector: the caller's KnotVector object is untouched by a curve without control points",
                  len(list(shared)) == len(before) and all(x is y or x == y for x, y in zip(list(shared), before)))
        consistent(env, b, "shared KnotVector (curve without control points): the other curve")
        for name, fn in muts:
            shared = KnotVector(list(kv.U))
            before = list(shared)
            a, b = Curve(shared, P, W), Curve(shared, Q)
            sb = kmode.snapshot(b)
            try:
                fn(a)
            except ValueError:
                pass
            kmode.unchanged(env, b, sb, f"shared KnotVector: {name} on the other curve")
            env.holds(f"shared KnotVector: the caller's KnotVector object is untouched by {name}",
                      len(list(shared)) == len(before) and all(x is y or x == y for x, y in zip(list(shared), before)))
            consistent(env, b, f"shared KnotVector ({name}): the other curve")
            consistent(env, a, f"shared KnotVector ({name}): the mutated curve")
    kmode.unchanged(env, c, snap, f"{op} (non-mutating)")
    consistent(env, c, f"after {op}")
