"""CLI: python -m symx.run <ID> [--tier quick|thorough] [--replay file] [--jobs N] [--only regex] [-v]"""
import argparse
import os
import sys


def main():
    ap = argparse.ArgumentParser()
    ap.add_argument("prop")
    ap.add_argument("--tier", default=os.environ.get("VERIF_TIER", "quick"), choices=["quick", "thorough"])
    ap.add_argument("--replay")
    ap.add_argument("--jobs", type=int, default=int(os.environ.get("VERIF_JOBS", "0")) or min(16, os.cpu_count() or 4))
    ap.add_argument("--only")
    ap.add_argument("-v", "--verbose", action="store_true")
    a = ap.parse_args()
    seed = int(os.environ.get("VERIF_SEED", "0") or 0)
    from symx import harness
    mod = f"symx.props.{a.prop.lower()}"
    if a.replay:
        sys.exit(harness.main_replay(mod, a.replay))
    sys.exit(harness.main_check(mod, a.tier, seed, a.jobs, a.only, a.verbose))


if __name__ == "__main__":
    main()
