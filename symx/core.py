"""Shadow-symbolic execution of the real compmec.nurbs code over z3 reals.

SV     symbolic real number: n / prod(atom^k), n a division-free z3 Real term kept in
       sum-of-monomials normal form, the atoms known to be non-zero on the current path.
SBool  symbolic truth value; bool(SBool) asks the exploration context and forks.
explore(body)  re-executes body once per feasible path (depth first over recorded decisions).

Nothing of the library is modelled here: the terms are whatever /repo/src produces when it is
run on SV inputs.
"""
from __future__ import annotations

import ast
import math
import sys
import time
from fractions import Fraction

import numpy as np
import z3


class Concretised(BaseException):
    """The code under analysis asked for a concrete value of a symbolic number."""


class PathAbort(BaseException):
    """The current path is infeasible / cannot be continued."""


class Inconclusive(BaseException):
    """The solver could not decide something the run depends on."""


def _const(x):
    if isinstance(x, (bool, np.bool_)):
        return Fraction(int(x))
    if isinstance(x, (int, np.integer)):
        return Fraction(int(x))
    if isinstance(x, Fraction):
        return x
    if isinstance(x, (float, np.floating)):
        return Fraction(float(x))
    return None


def _is_float(x):
    return isinstance(x, (float, np.floating))


def _rv(fr: Fraction):
    if fr.denominator == 1:
        return z3.RealVal(fr.numerator)
    return z3.RealVal(f"{fr.numerator}/{fr.denominator}")


def frac_of(zv) -> Fraction:
    """z3 numeric value -> Fraction (algebraic numbers are approximated)."""
    if z3.is_rational_value(zv):
        return Fraction(zv.numerator_as_long(), zv.denominator_as_long())
    if z3.is_algebraic_value(zv):
        a = zv.approx(30)
        return Fraction(a.numerator_as_long(), a.denominator_as_long())
    raise ValueError(f"not a numeric value: {zv}")


STATS = dict(feas_queries=0, feas_time=0.0, feas_unknown=0, obl_queries=0, obl_time=0.0,
             obl_syntactic=0, obl_solver=0, obl_unknown=0)


def reset_stats():
    for k in STATS:
        STATS[k] = 0 if isinstance(STATS[k], int) else 0.0


def _nonlinear(e, _cache={}):
    """cheap syntactic test: does the term multiply two non-constant factors?"""
    i = e.get_id()
    hit = _cache.get(i)
    if hit is not None:
        return hit[0]
    r = False
    if z3.is_app(e):
        k = e.decl().kind()
        if k == z3.Z3_OP_MUL:
            nonconst = [c for c in e.children() if not z3.is_rational_value(c)]
            if len(nonconst) > 1:
                r = True
        elif k in (z3.Z3_OP_DIV, z3.Z3_OP_POWER):
            r = True
        if not r:
            for c in e.children():
                if _nonlinear(c):
                    r = True
                    break
    if len(_cache) > 200000:
        _cache.clear()
    _cache[i] = (r, e)  # keep e alive: ast ids are reused after garbage collection
    return r


def _var_ids(e, _cache={}):
    """ids of the uninterpreted constants occurring in e (memoised per ast)"""
    i = e.get_id()
    hit = _cache.get(i)
    if hit is not None:
        return hit[0]
    out = set()
    if z3.is_const(e):
        if e.decl().kind() == z3.Z3_OP_UNINTERPRETED:
            out.add(i)
    else:
        for c in e.children():
            out |= _var_ids(c)
    if len(_cache) > 300000:
        _cache.clear()
    _cache[i] = (frozenset(out), e)
    return _cache[i][0]


class Ctx:
    """One path of the exploration.

    Linear path constraints live in an incremental solver; non-linear ones (rare: they are only
    recorded when both branches of a non-linear test are feasible) are kept aside and every query
    that involves them goes to a fresh nlsat solver -- z3's incremental core is orders of magnitude
    slower on them."""

    cur: "Ctx" = None

    def __init__(self, decisions, timeout_ms=5000):
        self.s = z3.Solver()
        self.s.set("timeout", timeout_ms)
        self.timeout_ms = timeout_ms
        self.decisions = decisions  # shared list of [value, other_side_still_to_explore, forced]
        self.pos = 0
        self.path = []
        self.nl = []
        self.vars = {}  # name -> z3 var (inputs)
        self.nsqrt = 0
        self.nfresh = 0
        self.unknown_feas = 0
        self.implied = {}  # ast id -> truth value already implied by the path condition
        self.eqs = []  # (var, var|numeral) equalities of the path, applied in order

    # -- feasibility ---------------------------------------------------------------
    def _relevant_path(self, extra, want_model):
        """the path condition without the definitions (r >= 0 and r*r == X) of square-root variables that occur nowhere
        else in the query: such a definition is satisfiable whatever the other variables are (X is a sum of squares
        or was tested non-negative), so dropping it does not change the answer -- and nlsat is spared the variable"""
        defs = getattr(self, "sqrt_defs", None)
        if not defs or want_model:
            return self.path
        def_ids = {c.get_id() for (_, c) in defs.values()}
        used = set()
        for c in list(self.path) + list(extra):
            if c.get_id() not in def_ids:
                used |= _var_ids(c)
        changed = True
        keep = set()
        while changed:
            changed = False
            for vid, (rv, c) in defs.items():
                if vid in used and vid not in keep:
                    keep.add(vid)
                    new = _var_ids(c) - used
                    if new:
                        used |= new
                        changed = True
        drop = {c.get_id() for vid, (_, c) in defs.items() if vid not in keep}
        return [c for c in self.path if c.get_id() not in drop]

    def _full_check(self, extra, want_model=False, mult=2):
        last = (z3.unknown, None)
        path = self._relevant_path(extra, want_model)
        for logic in ("QF_NRA", None):
            s2 = z3.SolverFor(logic) if logic else z3.Solver()
            s2.set("timeout", self.timeout_ms * mult)
            s2.set("rlimit", self.timeout_ms * mult * 1500)  # nlsat does not always honour the timeout
            for c in path:
                s2.add(c)
            for c in extra:
                s2.add(c)
            try:
                r = s2.check()
            except z3.Z3Exception:
                r = z3.unknown
            if r != z3.unknown:
                return r, (s2.model() if (want_model and r == z3.sat) else None)
        return last

    def _feasible(self, e):
        t = time.time()
        STATS["feas_queries"] += 1
        r = z3.unknown
        if not _nonlinear(e):
            self.s.push()
            self.s.add(e)
            r = self.s.check()
            self.s.pop()
            if r == z3.sat and self.nl:
                r = z3.unknown  # the linear relaxation is satisfiable: ask about the full path
        if r == z3.unknown:
            r, _ = self._full_check([e])
        STATS["feas_time"] += time.time() - t
        if r == z3.unknown:
            STATS["feas_unknown"] += 1
            self.unknown_feas += 1
            return True  # over-approximate: keep the branch, the path end decides
        return r == z3.sat

    def _note_equality(self, e):
        """remember var == var / var == numeral facts of the path as a substitution"""
        if not (z3.is_app(e) and e.decl().kind() == z3.Z3_OP_EQ):
            return
        a, b = e.children()
        a, b = self.subst(a), self.subst(b)

        def isvar(x):
            return z3.is_const(x) and x.decl().kind() == z3.Z3_OP_UNINTERPRETED

        if isvar(a) and (isvar(b) or z3.is_rational_value(b)) and not a.eq(b):
            self.eqs.append((a, b))
        elif isvar(b) and z3.is_rational_value(a):
            self.eqs.append((b, a))

    def subst(self, term):
        for a, b in self.eqs:
            term = z3.substitute(term, (a, b))
        return term

    def close_equalities(self):
        """find var == var facts implied by the (linear part of the) path condition, e.g. from
        |x - y| < 1e-9 together with a separation assumption; extends the substitution"""
        if getattr(self, "_closed_at", -1) == len(self.path):
            return
        self._closed_at = len(self.path)
        vs = [self.subst(v) for v in self.vars.values()]
        seen, uniq = set(), []
        for v in vs:
            if z3.is_const(v) and v.decl().kind() == z3.Z3_OP_UNINTERPRETED and v.get_id() not in seen:
                seen.add(v.get_id())
                uniq.append(v)
        if self.s.check() != z3.sat:
            return
        m = self.s.model()
        vals = [m.eval(v, model_completion=True) for v in uniq]
        for i, a in enumerate(uniq):
            for k in range(i + 1, len(uniq)):
                b = uniq[k]
                if not vals[i].eq(vals[k]):
                    continue  # a model separates them: not implied
                a2, b2 = self.subst(a), self.subst(b)
                if a2.eq(b2):
                    continue
                self.s.push()
                self.s.add(a2 != b2)
                r = self.s.check()
                self.s.pop()
                STATS["feas_queries"] += 1
                if r == z3.unsat and z3.is_const(b2) and b2.decl().kind() == z3.Z3_OP_UNINTERPRETED:
                    self.eqs.append((b2, a2))

    def _add(self, e):
        self.path.append(e)
        self._note_equality(e)
        if _nonlinear(e):
            self.nl.append(e)
        else:
            self.s.add(e)

    def assume(self, cond):
        if isinstance(cond, SBool):
            cond = cond.e
        elif isinstance(cond, (bool, np.bool_)):
            if not cond:
                raise PathAbort("assumption is false")
            return
        cond = z3.simplify(cond)
        if z3.is_true(cond):
            return
        if z3.is_false(cond):
            raise PathAbort("assumption is false")
        self._add(cond)

    def decide(self, e):
        rid = e.get_id()
        hit = self.implied.get(rid)
        if hit is not None:
            return hit[0]
        raw = e
        e = z3.simplify(e)
        if z3.is_true(e):
            self.implied[rid] = (True, raw)
            return True
        if z3.is_false(e):
            self.implied[rid] = (False, raw)
            return False
        eid = e.get_id()
        if eid in self.implied:
            val = self.implied[eid][0]
            self.implied[rid] = (val, raw)
            return val
        if self.pos < len(self.decisions):
            val, _, forced = self.decisions[self.pos]
            self.pos += 1
            if not forced:
                self._add(e if val else z3.Not(e))
            self.implied[eid] = (val, e)
            self.implied[rid] = (val, raw)
            return val
        ft = self._feasible(e)
        ff = self._feasible(z3.Not(e))
        if not ft and not ff:
            raise PathAbort("infeasible path")
        if ft and ff:
            val = True
            self.decisions.append([True, True, False])
            self._add(e)
        else:
            # the path condition already implies this outcome: nothing to record
            val = ft
            self.decisions.append([val, False, True])
        self.pos += 1
        self.implied[eid] = (val, e)
        self.implied[rid] = (val, raw)
        return val

    def model(self, extra=()):
        """('sat', model) / ('unsat', None) / ('unknown', None) for the path condition (+extra)."""
        t = time.time()
        STATS["feas_queries"] += 1
        extra = list(extra)
        r = z3.unknown
        m = None
        if not self.nl and not any(_nonlinear(e) for e in extra):
            self.s.push()
            for e in extra:
                self.s.add(e)
            r = self.s.check()
            m = self.s.model() if r == z3.sat else None
            self.s.pop()
        if r == z3.unknown:
            r, m = self._full_check(extra, want_model=True, mult=4)
        STATS["feas_time"] += time.time() - t
        return str(r), m

    def fresh(self, prefix="_f"):
        self.nfresh += 1
        return z3.Real(f"{prefix}{self.nfresh}")


def explore(body, max_paths=20000, timeout_ms=5000, on_path=None):
    """Run body(ctx) once per feasible path.  body's return value / exception is handed to
    on_path(ctx, kind, payload) with kind in ok|exc|abort|concretised.  Returns number of paths and
    total number of decisions taken."""
    decisions = []
    npaths = 0
    ndecisions = 0
    while True:
        ctx = Ctx(decisions, timeout_ms)
        Ctx.cur = ctx
        npaths += 1
        try:
            try:
                out = body(ctx)
                kind, payload = "ok", out
            except PathAbort as e:
                kind, payload = "abort", str(e)
            except Concretised as e:
                kind, payload = "concretised", str(e)
            except Inconclusive:
                raise
            except RecursionError as e:
                kind, payload = "exc", e
            except Exception as e:  # the code under analysis raised on this path
                kind, payload = "exc", e
            if on_path is not None:
                on_path(ctx, kind, payload)
        finally:
            Ctx.cur = None
        ndecisions += ctx.pos
        del decisions[ctx.pos:]
        while decisions and not (decisions[-1][1] and decisions[-1][0] is True):
            decisions.pop()
        if not decisions:
            break
        decisions[-1] = [False, False, False]
        if npaths >= max_paths:
            raise Inconclusive(f"more than {max_paths} paths")
    return npaths, ndecisions


# ---------------------------------------------------------------------------------------------
class SBool:
    __slots__ = ("e",)

    def __init__(self, e):
        self.e = e

    def __bool__(self):
        if Ctx.cur is None:
            raise Concretised("truth value of a symbolic condition outside an exploration")
        return Ctx.cur.decide(self.e)

    def __and__(self, o):
        return SBool(z3.And(self.e, _tob(o)))

    __rand__ = __and__

    def __or__(self, o):
        return SBool(z3.Or(self.e, _tob(o)))

    __ror__ = __or__

    def __invert__(self):
        return SBool(z3.Not(self.e))

    def __xor__(self, o):
        return SBool(z3.Xor(self.e, _tob(o)))

    __rxor__ = __xor__

    def __mul__(self, o):  # numpy-style logical and on bool arrays
        if isinstance(o, (SBool, bool, np.bool_)):
            return self.__and__(o)
        return (1 if bool(self) else 0) * o

    __rmul__ = __mul__

    def __add__(self, o):
        return (1 if bool(self) else 0) + o

    __radd__ = __add__

    def __int__(self):
        return 1 if bool(self) else 0

    __index__ = __int__

    def __eq__(self, o):
        if isinstance(o, (SBool, bool, np.bool_)):
            return SBool(self.e == _tob(o))
        return NotImplemented

    def __hash__(self):
        return 0

    def __repr__(self):
        return f"SBool({self.e})"


def _tob(o):
    if isinstance(o, SBool):
        return o.e
    return z3.BoolVal(bool(o))


def zbool(o):
    """anything truthy-symbolic -> z3 Bool"""
    if isinstance(o, SBool):
        return o.e
    if z3.is_expr(o):
        return o
    return z3.BoolVal(bool(o))


# -- which float(x) calls are harmless ---------------------------------------------------------
_file_float_sites = {}


def _float_sites(filename):
    """line -> True iff every float(...) call on that line is a discarded statement or inside an
    f-string (the library's 'is it a number' idiom / error messages)."""
    if filename in _file_float_sites:
        return _file_float_sites[filename]
    sites = {}
    try:
        tree = ast.parse(open(filename).read())
    except Exception:
        _file_float_sites[filename] = sites
        return sites
    parents = {}
    for node in ast.walk(tree):
        for ch in ast.iter_child_nodes(node):
            parents[ch] = node
    for node in ast.walk(tree):
        if isinstance(node, ast.Call) and isinstance(node.func, ast.Name) and node.func.id == "float":
            p = parents.get(node)
            ok = isinstance(p, ast.Expr)
            q = node
            while q in parents and not ok:
                q = parents[q]
                if isinstance(q, ast.JoinedStr):
                    ok = True
            for ln in range(node.lineno, (node.end_lineno or node.lineno) + 1):
                sites[ln] = sites.get(ln, True) and ok
    _file_float_sites[filename] = sites
    return sites


def _bare_float_stmt(frame):
    return _float_sites(frame.f_code.co_filename).get(frame.f_lineno, False)


# -- factored denominators --------------------------------------------------------------------
def _prod_atoms(d):
    r = None
    for a, k in d:
        for _ in range(k):
            r = a if r is None else r * a
    return r


def _den_lcm(d1, d2):
    if d1 == d2:
        return d1, (), ()
    m1 = {a.get_id(): (a, k) for a, k in d1}
    m2 = {a.get_id(): (a, k) for a, k in d2}
    l, mis1, mis2 = [], [], []
    for i in sorted(set(m1) | set(m2)):
        a = (m1.get(i) or m2.get(i))[0]
        k1 = m1[i][1] if i in m1 else 0
        k2 = m2[i][1] if i in m2 else 0
        k = max(k1, k2)
        l.append((a, k))
        if k - k1:
            mis1.append((a, k - k1))
        if k - k2:
            mis2.append((a, k - k2))
    return tuple(l), tuple(mis1), tuple(mis2)


def _den_mul(d1, d2):
    m = {}
    for a, k in d1 + d2:
        i = a.get_id()
        m[i] = (a, m[i][1] + k) if i in m else (a, k)
    return tuple(m[i] for i in sorted(m))


def _cancel(n, d):
    """numerator n against denominator atoms d: returns (n', d') with one common atom removed;
    n' is None when n was exactly the atom, -1 encoded as RealVal(-1)"""
    for idx, (atom, k) in enumerate(d):
        if atom.eq(n):
            nd = d[:idx] + (((atom, k - 1),) if k > 1 else ()) + d[idx + 1:]
            return None, nd
    if d:
        neg = _som(-n)
        for idx, (atom, k) in enumerate(d):
            if atom.eq(neg):
                nd = d[:idx] + (((atom, k - 1),) if k > 1 else ()) + d[idx + 1:]
                return z3.RealVal(-1), nd
    return n, d


_SUB_MEMO = {}


def _leading_coefficient(n):
    """rational coefficient of the first monomial of a sum-of-monomials term (None if not recognisable)"""
    t = n
    if z3.is_app(t) and t.decl().kind() == z3.Z3_OP_ADD:
        t = t.children()[0]
    if z3.is_rational_value(t):
        return Fraction(t.numerator_as_long(), t.denominator_as_long())
    if z3.is_app(t) and t.decl().kind() == z3.Z3_OP_MUL:
        c0 = t.children()[0]
        if z3.is_rational_value(c0):
            return Fraction(c0.numerator_as_long(), c0.denominator_as_long())
    return Fraction(1)


def _som(n):
    return z3.simplify(n, som=True)


class SV:
    """Symbolic real value n / prod(d).  c is the Fraction when the value is a known constant.
    t (taint) is True when a Python/numpy float took part in computing the value."""

    __slots__ = ("n", "d", "c", "t", "_abs", "_cmpc", "_absof")
    numpy_scalar_mode = False  # broadcast list/tuple operands like a numpy scalar (advanced.py)

    def __init__(self, n, d=(), c=None, t=False):
        if not z3.is_expr(n):  # the library may call type(x)(0) on one of our values
            if isinstance(n, SV):
                n, d, c, t = n.n, n.d, n.c, n.t
            else:
                fr = _const(n)
                if fr is None:
                    raise TypeError(f"cannot make a symbolic number from {n!r}")
                t = t or _is_float(n)
                n, d, c = _rv(fr), (), fr
        self.n = n
        self.d = d
        self.c = c
        self.t = t

    @property
    def e(self):
        if not self.d:
            return self.n
        return self.n / _prod_atoms(self.d)

    @staticmethod
    def norm(n, d=(), t=False):
        n = _som(n)
        if z3.is_rational_value(n):
            fr = Fraction(n.numerator_as_long(), n.denominator_as_long())
            if not d or fr == 0:
                return SV(_rv(fr), (), fr, t)
        if d:
            # cancel an atom that is syntactically the whole numerator
            for idx, (a, k) in enumerate(d):
                if a.eq(n):
                    nd = d[:idx] + (((a, k - 1),) if k > 1 else ()) + d[idx + 1:]
                    return SV.norm(z3.RealVal(1), nd, t) if nd else SV(_rv(Fraction(1)), (), Fraction(1), t)
        return SV(n, d, None, t)

    @staticmethod
    def var(name):
        return SV(z3.Real(name))

    @staticmethod
    def const(x, t=False):
        fr = _const(x)
        return SV(_rv(fr), (), fr, t)

    @staticmethod
    def lift(x):
        if isinstance(x, SV):
            return x
        fr = _const(x)
        if fr is None:
            return None
        return SV(_rv(fr), (), fr, _is_float(x))

    def _bin(self, o, op, refl=False):
        if isinstance(o, (list, tuple)):
            if SV.numpy_scalar_mode:
                arr = np.array(o, dtype=object)
                f = {"add": np.add, "sub": np.subtract, "mul": np.multiply, "div": np.divide}[op]
                return f(arr, self) if refl else f(self, arr)
            return NotImplemented
        o = SV.lift(o)
        if o is None:
            return NotImplemented
        a, b = (o, self) if refl else (self, o)
        t = a.t or b.t
        if op in ("add", "sub"):
            if a.c is not None and b.c is not None:
                return SV.const(a.c + b.c if op == "add" else a.c - b.c, t)
            if b.c == 0:
                return a if a.t == t else SV(a.n, a.d, a.c, t)
            if a.c == 0:
                r = b if op == "add" else -b
                return r if r.t == t else SV(r.n, r.d, r.c, t)
            if op == "sub" and (a is b or (a.d == b.d and a.n.eq(b.n))):
                return SV.const(0, t)
            if op == "sub" and not a.d and not b.d and not t:
                key = (a.n.get_id(), b.n.get_id())
                hit = _SUB_MEMO.get(key)
                if hit is not None:
                    return hit[2]
                r = SV.norm(a.n - b.n, (), t)
                if len(_SUB_MEMO) > 100000:
                    _SUB_MEMO.clear()
                _SUB_MEMO[key] = (a.n, b.n, r)
                return r
            l, m1, m2 = _den_lcm(a.d, b.d)
            n1 = a.n * _prod_atoms(m1) if m1 else a.n
            n2 = b.n * _prod_atoms(m2) if m2 else b.n
            return SV.norm(n1 + n2 if op == "add" else n1 - n2, l, t)
        if op == "mul":
            if a.c is not None and b.c is not None:
                return SV.const(a.c * b.c, t)
            if a.c == 0 or b.c == 0:
                return SV.const(0, t)
            if a.c == 1:
                return b if b.t == t else SV(b.n, b.d, b.c, t)
            if b.c == 1:
                return a if a.t == t else SV(a.n, a.d, a.c, t)
            # cancel a numerator that is (up to sign) an atom of the other operand's denominator
            an, ad, bn, bd = a.n, a.d, b.n, b.d
            if bd and a.c is None:
                an, bd = _cancel(an, bd)
            if ad and b.c is None:
                bn, ad = _cancel(bn, ad)
            if an is None and bn is None:
                return SV.norm(z3.RealVal(1), _den_mul(ad, bd), t)
            if an is None:
                return SV.norm(bn, _den_mul(ad, bd), t)
            if bn is None:
                return SV.norm(an, _den_mul(ad, bd), t)
            return SV.norm(an * bn, _den_mul(ad, bd), t)
        if op == "div":
            if b.c is not None:
                if b.c == 0:
                    raise ZeroDivisionError("division by zero")
                if a.c is not None:
                    return SV.const(a.c / b.c, t)
                if b.c == 1:
                    return a if a.t == t else SV(a.n, a.d, a.c, t)
                return SV.norm(a.n * _rv(1 / b.c), a.d, t)
            if Ctx.cur is None:
                raise Concretised("symbolic division outside an exploration")
            if Ctx.cur.decide(b.n == 0):
                raise ZeroDivisionError("division by zero")
            if a.c == 0:
                return SV.const(0, t)
            if a.n.eq(b.n):
                # (n/d1)/(n/d2) = prod(d2)/prod(d1)
                if not a.d and not b.d:
                    return SV.const(1, t)
                return SV.norm(_prod_atoms(b.d) if b.d else z3.RealVal(1), a.d, t)
            n = a.n * _prod_atoms(b.d) if b.d else a.n
            # the divisor's numerator becomes a denominator atom; x-y and y-x share one atom
            atom, negatom = b.n, _som(-b.n)
            if negatom.get_id() < atom.get_id():
                atom, n = negatom, -n
            return SV.norm(n, _den_mul(a.d, ((atom, 1),)), t)
        raise AssertionError(op)

    def __add__(self, o):
        return self._bin(o, "add")

    def __radd__(self, o):
        return self._bin(o, "add", True)

    def __sub__(self, o):
        return self._bin(o, "sub")

    def __rsub__(self, o):
        return self._bin(o, "sub", True)

    def __mul__(self, o):
        return self._bin(o, "mul")

    def __rmul__(self, o):
        return self._bin(o, "mul", True)

    def __truediv__(self, o):
        return self._bin(o, "div")

    def __rtruediv__(self, o):
        return self._bin(o, "div", True)

    def __neg__(self):
        if self.c is not None:
            return SV.const(-self.c, self.t)
        return SV(_som(-self.n), self.d, None, self.t)

    def __pos__(self):
        return self

    def __abs__(self):
        if self.c is not None:
            return SV.const(abs(self.c), self.t)
        try:
            return self._abs
        except AttributeError:
            pass
        e = self.e
        r = SV(z3.If(e >= 0, e, -e), (), None, self.t)
        r._absof = self  # lets a harness look through the library's final abs()
        self._abs = r
        return r

    def sqrt(self, nonneg=False):
        """nonneg=True: the caller knows the radicand is a sum of squares (no sign test is forked)"""
        if self.c is not None:
            fr = self.c
            if fr < 0:
                raise ValueError("sqrt of negative")
            rn, rd = math.isqrt(fr.numerator), math.isqrt(fr.denominator)
            if rn * rn == fr.numerator and rd * rd == fr.denominator:
                return SV.const(Fraction(rn, rd), self.t)
        ctx = Ctx.cur
        if ctx is None:
            raise Concretised("symbolic sqrt outside an exploration")
        if not nonneg and ctx.decide(self.e < 0):
            raise ValueError("sqrt of negative symbolic value")
        # sqrt(c^2 * Y) = c * sqrt(Y): split a rational square off the polynomial's leading coefficient, so that
        # radicands that differ by such a factor share one square-root variable
        rad, factor = self, Fraction(1)
        if not self.d:
            c = _leading_coefficient(self.n)
            if c is not None and c != 0:
                c = abs(c)
                rn, rd = math.isqrt(c.numerator), math.isqrt(c.denominator)
                if rn * rn == c.numerator and rd * rd == c.denominator and c != 1:
                    factor = Fraction(rn, rd)
                    rad = SV.norm(self.n * _rv(1 / c), (), self.t)
        if not hasattr(ctx, "sqrts"):
            ctx.sqrts = {}
        key = (rad.n.get_id(), tuple((a.get_id(), k) for a, k in rad.d))
        hit = ctx.sqrts.get(key)
        if hit is None:
            for other, orad in ctx.sqrts.values():  # the same polynomial written in another monomial order
                if orad.d == rad.d:
                    diff = _som(rad.n - orad.n)
                    if z3.is_rational_value(diff) and diff.numerator_as_long() == 0:
                        hit = ctx.sqrts[key] = (other, orad)
                        break
        if hit is None:
            ctx.nsqrt += 1
            r = z3.Real(f"_sqrt{ctx.nsqrt}")
            definition = z3.simplify(z3.And(r >= 0, SV(r * r).eq_expr(rad)))
            ctx.assume(definition)
            if not hasattr(ctx, "sqrt_defs"):
                ctx.sqrt_defs = {}
            ctx.sqrt_defs[r.get_id()] = (r, definition)
            hit = ctx.sqrts[key] = (SV(r, (), None, self.t), rad)
        return hit[0] * factor if factor != 1 else hit[0]

    def __pow__(self, n):
        if isinstance(n, (int, np.integer)) and n >= 0:
            r = SV.const(1)
            for _ in range(int(n)):
                r = r * self
            return r
        return NotImplemented

    def cross(self, o):
        """(n1', n2'): division-free numerators over the common denominator"""
        l, m1, m2 = _den_lcm(self.d, o.d)
        n1 = self.n * _prod_atoms(m1) if m1 else self.n
        n2 = o.n * _prod_atoms(m2) if m2 else o.n
        return n1, n2

    def eq_expr(self, o):
        """division-free z3 formula for self == o (valid: all atoms are non-zero on this path)"""
        o = SV.lift(o)
        n1, n2 = self.cross(o)
        return n1 == n2

    def _cmp(self, o, op):
        if _is_float(o) and (o == float("inf") or o == float("-inf")):
            # every real is below +inf and above -inf (a symbolic value stands for a finite real)
            up = o > 0
            return {"lt": up, "le": up, "gt": not up, "ge": not up, "eq": False, "ne": True}[op]
        o = SV.lift(o)
        if o is None:
            return NotImplemented
        if self.c is not None and o.c is not None:
            return {"lt": self.c < o.c, "le": self.c <= o.c, "gt": self.c > o.c, "ge": self.c >= o.c,
                    "eq": self.c == o.c, "ne": self.c != o.c}[op]
        if self is o or (self.d == o.d and self.n.eq(o.n)):
            return op in ("le", "ge", "eq")
        if o.c is not None:
            try:
                memo = self._cmpc
            except AttributeError:
                memo = self._cmpc = {}
            key = (op, o.c)
            hit = memo.get(key)
            if hit is None:
                hit = memo[key] = self._cmp_build(o, op)
            return hit
        return self._cmp_build(o, op)

    def _cmp_build(self, o, op):
        if op == "eq":
            return SBool(self.eq_expr(o))
        if op == "ne":
            return SBool(z3.Not(self.eq_expr(o)))
        a, b = self.e, o.e
        return SBool({"lt": a < b, "le": a <= b, "gt": a > b, "ge": a >= b}[op])

    def __lt__(self, o):
        return self._cmp(o, "lt")

    def __le__(self, o):
        return self._cmp(o, "le")

    def __gt__(self, o):
        return self._cmp(o, "gt")

    def __ge__(self, o):
        return self._cmp(o, "ge")

    def __eq__(self, o):
        r = self._cmp(o, "eq")
        return False if r is NotImplemented else r

    def __ne__(self, o):
        r = self._cmp(o, "ne")
        return True if r is NotImplemented else r

    def __hash__(self):
        return 0

    def __bool__(self):
        # truthiness of a number is "!= 0" (e.g. `if not any(nodes)`): a fork like any other comparison
        if self.c is not None:
            return self.c != 0
        if Ctx.cur is None:
            raise Concretised("truth value of a symbolic number outside an exploration")
        return Ctx.cur.decide(self.n != 0)

    def __float__(self):
        if self.c is not None:
            return float(self.c)
        f = sys._getframe(1)
        if _bare_float_stmt(f):
            return 0.0
        raise Concretised(f"float() of a symbolic value used at {f.f_code.co_filename}:{f.f_lineno}")

    def __int__(self):
        if self.c is not None and self.c.denominator == 1:
            return int(self.c)
        raise Concretised("int() of a symbolic value")

    def __repr__(self):
        return f"SV({self.c if self.c is not None else self.e})"

    __str__ = __repr__

    def __format__(self, spec):
        return repr(self)

    def __copy__(self):
        return self

    def __deepcopy__(self, memo):
        return self


# -- deciding obligations ---------------------------------------------------------------------
def _fresh_check(formulas, timeout_ms, logic="QF_NRA"):
    s = z3.SolverFor(logic) if logic else z3.Solver()
    s.set("timeout", timeout_ms)
    s.set("rlimit", timeout_ms * 6000)  # nlsat does not always honour the timeout
    for f in formulas:
        s.add(f)
    t = time.time()
    try:
        r = s.check()
    except z3.Z3Exception:
        r = z3.unknown
    STATS["obl_queries"] += 1
    STATS["obl_time"] += time.time() - t
    m = s.model() if r == z3.sat else None
    return str(r), m


def prove_eq(ctx: Ctx, a, b, timeout_ms=20000, extra=()):
    """Is a == b for every value of the symbolic inputs on this path?
    returns ('valid', None) | ('cex', model) | ('unknown', None)."""
    a, b = SV.lift(a), SV.lift(b)
    if a is None or b is None:
        raise TypeError("prove_eq on non-numbers")
    if a.c is not None and b.c is not None:
        if a.c == b.c:
            return "valid", None
        r, m = ctx.model(extra)
        return ("cex", m) if r == "sat" else ("unknown", None) if r == "unknown" else ("valid", None)
    n1, n2 = a.cross(b)
    diff = _som(n1 - n2)
    if ctx.eqs and not z3.is_rational_value(diff):
        diff = _som(ctx.subst(diff))
    if z3.is_rational_value(diff):
        STATS["obl_syntactic"] += 1
        if diff.numerator_as_long() == 0:
            return "valid", None
        # a non-zero constant difference: every point of the path is a counterexample
        r, m = ctx.model(extra)
        return ("cex", m) if r == "sat" else ("unknown", None) if r == "unknown" else ("valid", None)
    STATS["obl_solver"] += 1
    neg = diff != 0
    # 1. universal: no path condition at all
    r, m = _fresh_check([neg], timeout_ms)
    if r == "unsat":
        return "valid", None
    # 1b. equalities implied by the path (x == y hidden behind tolerance tests) substituted
    n_eqs = len(ctx.eqs)
    ctx.close_equalities()
    if len(ctx.eqs) > n_eqs:
        diff = _som(ctx.subst(diff))
        if z3.is_rational_value(diff) and diff.numerator_as_long() == 0:
            return "valid", None
        neg = diff != 0
        r, m = _fresh_check([neg], timeout_ms)
        if r == "unsat":
            return "valid", None
    # 2. with the path condition
    r, m = _fresh_check(list(ctx.path) + list(extra) + [neg], timeout_ms)
    if r == "unsat":
        return "valid", None
    if r == "sat":
        return "cex", m
    r, m = _fresh_check(list(ctx.path) + list(extra) + [neg], timeout_ms, logic=None)
    if r == "unsat":
        return "valid", None
    if r == "sat":
        return "cex", m
    STATS["obl_unknown"] += 1
    return "unknown", None


def prove(ctx: Ctx, cond, timeout_ms=20000, extra=(), premises=None):
    """Does cond hold for every value of the symbolic inputs on this path?
    premises: use only these facts (each established as an obligation of its own) instead of the path condition"""
    if isinstance(cond, (bool, np.bool_)):
        if cond:
            return "valid", None
        r, m = ctx.model(extra)
        return ("cex", m) if r == "sat" else ("unknown", None) if r == "unknown" else ("valid", None)
    e = z3.simplify(zbool(cond))
    if z3.is_true(e):
        STATS["obl_syntactic"] += 1
        return "valid", None
    STATS["obl_solver"] += 1
    neg = z3.Not(e)
    base = list(ctx.path) if premises is None else [zbool(p) for p in premises]
    forms = base + list(extra) + [neg]
    nl = any(_nonlinear(f) for f in forms)
    r, m = _fresh_check(forms, timeout_ms, logic="QF_NRA" if nl else None)
    if r == "unknown":
        r, m = _fresh_check(forms, timeout_ms, logic=None if nl else "QF_NRA")
    if r == "unsat":
        return "valid", None
    if r == "sat":
        return "cex", m
    STATS["obl_unknown"] += 1
    return "unknown", None


def model_value(m, sv, default=Fraction(0)):
    """evaluate an SV (or number) under a z3 model -> Fraction"""
    if not isinstance(sv, SV):
        return _const(sv)
    if sv.c is not None:
        return sv.c
    v = z3.simplify(m.eval(sv.e, model_completion=True))
    return frac_of(v)  # ValueError when the model does not determine a number (e.g. x/0)


class LazySqrt:
    """sqrt(x) for a symbolic x known to be >= 0, kept unevaluated: comparisons with non-negative constants and with
    other lazy roots are decided on the radicands (no square-root variable, no non-linear definition); s**2 and s*s give
    the radicand back; any other arithmetic materialises a square-root variable of the engine."""

    __slots__ = ("x", "_sv")

    def __init__(self, x):
        self.x = SV.lift(x)
        self._sv = None

    def sv(self):
        if self._sv is None:
            self._sv = self.x.sqrt(nonneg=True)
        return self._sv

    def _cmp(self, o, op):
        if isinstance(o, LazySqrt):
            return getattr(self.x, f"__{op}__")(o.x)
        if _is_float(o) and (o == float("inf") or o == float("-inf")):
            up = o > 0
            return {"lt": up, "le": up, "gt": not up, "ge": not up, "eq": False, "ne": True}[op]
        c = _const(o)
        if c is not None:
            if c < 0:
                return op in ("gt", "ge", "ne")
            return getattr(self.x, f"__{op}__")(c * c)
        if isinstance(o, SV) and o.c is not None:
            return self._cmp(o.c, op)
        return getattr(self.sv(), f"__{op}__")(o)

    def __lt__(self, o):
        return self._cmp(o, "lt")

    def __le__(self, o):
        return self._cmp(o, "le")

    def __gt__(self, o):
        return self._cmp(o, "gt")

    def __ge__(self, o):
        return self._cmp(o, "ge")

    def __eq__(self, o):
        return self._cmp(o, "eq")

    def __ne__(self, o):
        return self._cmp(o, "ne")

    def __hash__(self):
        return 0

    def __abs__(self):
        return self

    def __pow__(self, n):
        if n == 2:
            return self.x
        return self.sv() ** n

    def __mul__(self, o):
        if o is self or (isinstance(o, LazySqrt) and o.x is self.x):
            return self.x
        return self.sv() * (o.sv() if isinstance(o, LazySqrt) else o)

    def __rmul__(self, o):
        return (o.sv() if isinstance(o, LazySqrt) else o) * self.sv()

    def __add__(self, o):
        return self.sv() + (o.sv() if isinstance(o, LazySqrt) else o)

    __radd__ = __add__

    def __sub__(self, o):
        if o is self:
            return SV.const(0)
        return self.sv() - (o.sv() if isinstance(o, LazySqrt) else o)

    def __rsub__(self, o):
        return (o.sv() if isinstance(o, LazySqrt) else o) - self.sv()

    def __truediv__(self, o):
        return self.sv() / (o.sv() if isinstance(o, LazySqrt) else o)

    def __rtruediv__(self, o):
        return (o.sv() if isinstance(o, LazySqrt) else o) / self.sv()

    def __neg__(self):
        return -self.sv()

    def __float__(self):
        return float(self.sv())

    def __repr__(self):
        return f"LazySqrt({self.x})"
